#!/bin/bash
# Validates a sub-agent's deliverable and imports it as a seeded change.
# usage: tools/seedimport.sh <deliverable-dir> <seed-id>      e.g. /tmp/seed3/out/C05/a C05e
# Checks on a scratch worktree of /repo's HEAD: patch applies and builds; the unedited suite passes with it;
# the demo fails with it and passes without it. Writes /verif/seeded/<seed-id>/ only if all hold.
export GOFLAGS=-mod=mod GOPROXY=off GOSUMDB=off GOTOOLCHAIN=local
src=$1; id=$2; prop=${id:0:3}
[ -f $src/patch.diff ] && [ -f $src/demo_test.go ] || { echo "$id MISSING-FILES"; exit 1; }
W=$(mktemp -d /tmp/seedval.XXXX); rmdir $W
git -C /repo worktree add -q --detach $W HEAD
trap "git -C /repo worktree remove --force $W" EXIT
place=$(head -1 $src/demo_test.go | sed -n 's#.*place in: *\([^ ]*\).*#\1#p'); [ -z "$place" ] && place=.
rflag=""; case $id in C12*) rflag="-race";; esac
cp $src/demo_test.go $W/$place/zz_seed_demo_test.go
clean=$(cd $W && go test $rflag -vet=off -count=1 ./$place 2>&1 | grep -aE "^(ok|FAIL)" | tail -1 | cut -c1-4)
rm $W/$place/zz_seed_demo_test.go
if ! git -C $W apply $src/patch.diff 2>/tmp/seedval.err; then echo "$id APPLY-FAIL $(head -1 /tmp/seedval.err)"; exit 1; fi
suite=$(cd $W && go test -vet=off -count=1 ./... 2>&1 | grep -acE "^(FAIL|--- FAIL)")
cp $src/demo_test.go $W/$place/zz_seed_demo_test.go
with=$(cd $W && go test $rflag -vet=off -count=1 ./$place 2>&1 | grep -aE "^(ok|FAIL)" | tail -1 | cut -c1-4)
echo "$id demo_unchanged=[$clean] suite_fail_lines_with_patch=$suite demo_with_patch=[$with]"
if [ "$clean" = "ok  " ] && [ "$suite" = "0" ] && [ "$with" = "FAIL" ]; then
  d=/verif/seeded/$id; mkdir -p $d; cp $src/patch.diff $src/demo_test.go $d/
  python3 - "$src/meta.json" "$d/meta.json" "$id" <<'EOF'
import json,sys
try: m=json.load(open(sys.argv[1]))
except Exception as e: m={'summary':'(meta.json of the deliverable unreadable: %s)'%e}
m['id']=sys.argv[3]
m['origin']='round 3: independent sub-agent given only the property text and a scratch worktree of the fixed tree'
m['validated_by_main_session']={'tree':'HEAD of /repo (pinned tree + fix: commits)','demo_on_unchanged_tree':'ok','demo_with_patch':'FAIL','existing_suite_fail_lines_with_patch':0}
json.dump(m,open(sys.argv[2],'w'),indent=1)
EOF
  echo "$id IMPORTED"
else
  echo "$id REJECTED"; exit 1
fi
