#!/bin/bash
# usage: tools/seedrun.sh <seed-id e.g. C03a> [property] [extra vcheck args...]
# Applies a seeded change to /repo, runs the property's check, and restores /repo.
set -u
seed=$1; prop=${2:-${seed:0:3}}; shift; shift 2>/dev/null
cd /repo
if [ -n "$(git status --porcelain)" ]; then echo "SEEDRUN: /repo not clean"; exit 3; fi
restore() { git -C /repo reset -q --hard HEAD; git -C /repo clean -fdq; }
trap restore EXIT
P=/verif/seeded/$seed/patch.diff
[ -f /verif/seeded/$seed/patch.rebased.diff ] && P=/verif/seeded/$seed/patch.rebased.diff
if ! git apply $P 2>/dev/null; then echo "SEEDRUN $seed: patch does not apply"; exit 4; fi
cd /verif
out=$(./bin/vcheck run $prop "$@" 2>&1); rc=$?
echo "$out" | grep -E "^VIOLATION|^KNOWN|ENGINE-FAULT|tier=" | head -${SEEDRUN_LINES:-8}
echo "SEEDRUN $seed on $prop: exit=$rc"
exit $rc
