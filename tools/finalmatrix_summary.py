#!/usr/bin/env python3
# Collates seedmatrix outputs (latest line per seed wins) into seeded/final_matrix.txt and prints a summary.
import sys,re,collections
rows=collections.OrderedDict()
for f in sys.argv[1:]:
    for l in open(f, errors='replace'):
        p=l.split()
        if len(p)>=4 and re.match(r'C\d\d[a-z]$',p[0]):
            rows[p[0]]=l.rstrip('\n')
out=sorted(rows.items())
open('/verif/seeded/final_matrix.txt','w').write('\n'.join(v for _,v in out)+'\n')
c=collections.Counter()
for k,v in out:
    m=re.search(r'exit=(\d+)',v); c[m.group(1) if m else '?']+=1
print(len(out),'seeds;', dict(c)); print('not exit 1:',[k for k,v in out if 'exit=1' not in v])
