#!/bin/bash
# Applies each behaviour-preserving change of /verif/neutral to a scratch copy and runs the checks
# it could disturb; every check must exit 0.
export GOFLAGS=-mod=mod GOPROXY=off GOSUMDB=off GOTOOLCHAIN=local
OUT=${1:-/tmp/neutralmatrix.txt}
W=/tmp/neutralrepo
git -C /repo worktree remove --force $W 2>/dev/null
git -C /repo worktree add -q --detach $W HEAD
mkdir -p /tmp/neutralout
: > $OUT
declare -A LIST=( [N1]="C02 C03 C10 C12 C13 C17 C18" [N2]="C01 C02 C04 C09" [N3]="C08 C12 C13 C14 C17" [N4]="C15 C19 C20" [N5]="C05 C06 C12 C13 C18" [N6]="C01 C02 C06 C09" [N7]="C04 C05 C10 C12 C13" [N8]="C03 C12 C13 C18" )
for n in ${NEUTRALS:-N1 N2 N3 N4 N5 N6 N7 N8}; do
  git -C $W reset -q --hard HEAD; git -C $W clean -fdq
  git -C $W apply /verif/neutral/$n/patch.diff || { echo "$n APPLY-FAIL" >> $OUT; continue; }
  for id in ${LIST[$n]}; do
    out=$(cd /verif && VERIF_REPO=$W VERIF_OUT=/tmp/neutralout ./bin/vcheck run $id 2>&1); rc=$?
    echo "$n $id exit=$rc $(echo "$out" | grep -E '^VIOLATION|ENGINE-FAULT' | head -2 | tr '\n' ' ' | cut -c1-200)" >> $OUT
  done
done
git -C /repo worktree remove --force $W
echo DONE >> $OUT
