#!/bin/bash
# Runs every seeded change against its own property's quick check on a scratch copy of /repo.
# usage: tools/seedmatrix.sh [out-file]
export GOFLAGS=-mod=mod GOPROXY=off GOSUMDB=off GOTOOLCHAIN=local
OUT=${1:-/tmp/seedmatrix.txt}
W=${SEEDREPO:-/tmp/seedrepo}
git -C /repo worktree remove --force $W 2>/dev/null
git -C /repo worktree add -q --detach $W HEAD
SO=${SEEDOUT:-/tmp/seedout}; mkdir -p $SO
H=$(mktemp -d /tmp/harness.XXXX); cp -r /verif/harness/. $H/; cp /verif/bin/vcheck $H/vcheck; export VERIF_HARNESS=$H
: > $OUT
for d in /verif/seeded/${SEEDGLOB:-C*}; do
  id=$(basename $d); prop=${id:0:3}
  P=$d/patch.diff; [ -f $d/patch.rebased.diff ] && P=$d/patch.rebased.diff
  git -C $W reset -q --hard HEAD; git -C $W clean -fdq
  if ! git -C $W apply $P 2>/dev/null; then echo "$id $prop APPLY-FAIL" >> $OUT; continue; fi
  # does the demo still fail on the fixed tree with the patch?
  place=$(head -1 $d/demo_test.go | sed -n 's#.*place in: *\([^ ]*\).*#\1#p'); [ -z "$place" ] && place=.
  cp $d/demo_test.go $W/$place/zz_seed_demo_test.go
  rflag=""; case $id in C12*) rflag="-race";; esac
  demo=$(cd $W && go test $rflag -vet=off -count=1 ./$place 2>&1 | grep -aE "^(ok|FAIL|---)" | tail -1 | cut -c1-20)
  rm $W/$place/zz_seed_demo_test.go
  t0=$(date +%s)
  out=$(cd /verif && VERIF_REPO=$W VERIF_OUT=$SO $H/vcheck run $prop 2>&1); rc=$?
  t1=$(date +%s)
  nv=$(echo "$out" | grep -c "^VIOLATION")
  echo "$id $prop demo=[$demo] exit=$rc violations=$nv secs=$((t1-t0))" >> $OUT
done
git -C /repo worktree remove --force $W
rm -rf $H
echo DONE >> $OUT
