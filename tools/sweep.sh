#!/bin/bash
# usage: tools/sweep.sh quick|thorough [out-file] [ids...]  — runs the checks on /repo, one line per check
tier=${1:-quick}; out=${2:-/tmp/sweep_$tier.txt}; shift; shift
ids="$@"; [ -z "$ids" ] && ids="C01 C02 C03 C04 C05 C06 C07 C08 C09 C10 C11 C12 C13 C14 C15 C16 C17 C18 C19 C20"
: > $out
for id in $ids; do
  t0=$(date +%s)
  o=$(cd /verif && VERIF_OUT=${VERIF_OUT:-/verif} timeout ${SWEEP_TIMEOUT:-7200} ./bin/vcheck run $id --tier $tier 2>&1); rc=$?
  t1=$(date +%s)
  echo "$id tier=$tier exit=$rc secs=$((t1-t0)) $(echo "$o" | grep "tier=$tier" | tail -1 | sed 's/.*paths=/paths=/')" >> $out
  echo "$o" | grep -E "^VIOLATION|ENGINE-FAULT" | head -5 >> $out
done
echo DONE >> $out
