#!/bin/bash
# usage: tools/seedtry.sh <seed-id> <prop> [vcheck args...]   — runs a check against a seed on a scratch worktree (never touches /repo)
# env: VCHECK (binary, default /verif/bin/vcheck), VERIF_HARNESS
export GOFLAGS=-mod=mod GOPROXY=off GOSUMDB=off GOTOOLCHAIN=local
id=$1; prop=$2; shift; shift
d=/verif/seeded/$id
P=$d/patch.diff; [ -f $d/patch.rebased.diff ] && P=$d/patch.rebased.diff
W=$(mktemp -d /tmp/seedtry.XXXX); rmdir $W
git -C /repo worktree add -q --detach $W HEAD
trap "git -C /repo worktree remove --force $W" EXIT
git -C $W apply $P || { echo APPLY-FAIL; exit 3; }
mkdir -p /tmp/seedtryout
cd /verif && VERIF_REPO=$W VERIF_OUT=/tmp/seedtryout/$id ${VCHECK:-/verif/bin/vcheck} run $prop "$@" 2>&1 | grep -E "^VIOLATION|ENGINE-FAULT|inconclusive|tier=|unmodelled|fault" | head -${SEEDTRY_LINES:-12}
echo "SEEDTRY $id on $prop: exit=${PIPESTATUS[0]}"
