#!/usr/bin/env python3
"""Regenerates /verif/MANIFEST.json from tools/manifest_src.json (claimed checks + not_applicable)."""
import json, os
here = os.path.dirname(os.path.abspath(__file__))
src = json.load(open(os.path.join(here, "manifest_src.json")))
props = [json.loads(l)["id"] for l in open(os.path.join(here, "..", "properties.jsonl"))]
checks = []
for pid in props:
    c = src["checks"].get(pid)
    if not c:
        continue
    checks.append({
        "property_id": pid,
        "quick_cmd": f"./bin/vcheck run {pid} --tier quick",
        "thorough_cmd": f"./bin/vcheck run {pid} --tier thorough",
        "evidence_file": f"/verif/evidence/{pid}.json",
        "replay_cmd_template": "./bin/vcheck replay {path}",
        "engine": "gosx",
        "level_claimed": {"category": c.get("category", "model_checking"), "text": c["text"], "design_ref": c.get("design_ref", "DESIGN.md §3")},
        "level_note": c["note"],
        "technique": c.get("technique", "solver-based: symbolic execution of go/ssa of the real code + SMT (z3), bounded; native replay of counterexamples"),
    })
na = [{"property_id": pid, "reason": src["not_applicable"].get(pid, "check not built yet")} for pid in props if pid not in src["checks"]]
m = {
    "version": 1,
    "setup_cmd": "mkdir -p /verif/bin /verif/evidence /verif/replays && cd /verif/engine && GOFLAGS=-mod=mod GOPROXY=off GOSUMDB=off GOTOOLCHAIN=local go build -o /verif/bin/vcheck ./cmd/vcheck",
    "hooks": {"guard": "none (harness is injected by go/packages overlay and go test -overlay; /repo carries no hooks)", "enable": "n/a: overlay-only; checks load /repo's working tree with /verif/harness/** overlaid as zz_verif_*.go",
              "baseline_off_cmd": "cd /repo && GOFLAGS=-mod=mod GOPROXY=off go test -vet=off -count=1 ./...", "source_commits": [], "add_only": True},
    "engines": [{"name": "gosx", "path": "/verif/engine", "serves_properties": [c["property_id"] for c in checks],
                 "kind_free_text": "dynamic symbolic executor over go/ssa of /repo (forked from x/tools/go/ssa/interp), SMT-LIB2 terms (BV/FP/Bool) decided by z3 -in; re-execution with decision prefixes; native replay through go test -overlay"}],
    "checks": checks,
    "notes": src.get("notes", ""),
    "not_applicable": na,
}
json.dump(m, open(os.path.join(here, "..", "MANIFEST.json"), "w"), indent=1)
print("claimed", len(checks), "not_applicable", len(na))
