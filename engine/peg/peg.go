// Package peg reads the subset of the pigeon PEG syntax used by
// grammar/grammar.peg and renders it as Go data (and its code blocks as Go
// methods) for the C20 harness. It is an independent reader: pigeon itself is
// not available offline.
package peg

import (
	"fmt"
	"sort"
	"strconv"
	"strings"
	"unicode/utf8"
)

type Pos struct{ Line, Col, Off int }

type Node struct {
	Kind       string // choice action seq labeled and not andCode notCode zeroOrOne zeroOrMore oneOrMore ruleRef lit class any
	Pos        Pos
	Label      string
	Name       string // ruleRef name
	Val        string // literal value / class source text
	IgnoreCase bool
	Inverted   bool
	Chars      []rune
	Ranges     []rune
	Classes    []string
	Kids       []*Node
	Code       string
	Idx        int      // pre-order index within the rule, 1-based
	Labels     []string // labels passed to the code block
}

type Rule struct {
	Name, Display string
	Pos           Pos
	Expr          *Node
}

type Grammar struct {
	Init  string
	Rules []*Rule
}

type reader struct {
	src  string
	off  int
	line int
	col  int
}

func (r *reader) pos() Pos { return Pos{r.line, r.col, r.off} }
func (r *reader) eof() bool { return r.off >= len(r.src) }
func (r *reader) peek() rune {
	if r.eof() {
		return -1
	}
	c, _ := utf8.DecodeRuneInString(r.src[r.off:])
	return c
}
func (r *reader) next() rune {
	c, w := utf8.DecodeRuneInString(r.src[r.off:])
	r.off += w
	if c == '\n' {
		r.line++
		r.col = 0
	}
	r.col++
	return c
}
func (r *reader) hasPrefix(s string) bool { return strings.HasPrefix(r.src[r.off:], s) }

func (r *reader) skipWS() {
	for !r.eof() {
		switch {
		case r.hasPrefix("//"):
			for !r.eof() && r.peek() != '\n' {
				r.next()
			}
		case r.hasPrefix("/*"):
			for !r.eof() && !r.hasPrefix("*/") {
				r.next()
			}
			r.next()
			r.next()
		case strings.ContainsRune(" \t\r\n;", r.peek()):
			r.next()
		default:
			return
		}
	}
}

func isIdentStart(c rune) bool { return c == '_' || c >= 'a' && c <= 'z' || c >= 'A' && c <= 'Z' }
func isIdentPart(c rune) bool  { return isIdentStart(c) || c >= '0' && c <= '9' }

func (r *reader) ident() string {
	start := r.off
	for !r.eof() && isIdentPart(r.peek()) {
		r.next()
	}
	return r.src[start:r.off]
}

func (r *reader) fail(msg string) {
	panic(fmt.Sprintf("peg reader: %s at %d:%d", msg, r.line, r.col))
}

func (r *reader) codeBlock() string {
	if r.peek() != '{' {
		r.fail("expected code block")
	}
	r.next()
	start := r.off
	depth := 1
	for !r.eof() {
		c := r.peek()
		switch c {
		case '"':
			r.next()
			for !r.eof() && r.peek() != '"' {
				if r.peek() == '\\' {
					r.next()
				}
				r.next()
			}
		case '`':
			r.next()
			for !r.eof() && r.peek() != '`' {
				r.next()
			}
		case '\'':
			r.next()
			for !r.eof() && r.peek() != '\'' {
				if r.peek() == '\\' {
					r.next()
				}
				r.next()
			}
		case '{':
			depth++
		case '}':
			depth--
			if depth == 0 {
				code := r.src[start:r.off]
				r.next()
				return code
			}
		}
		r.next()
	}
	r.fail("unterminated code block")
	return ""
}

func (r *reader) stringLit() string {
	q := r.next()
	start := r.off - 1
	for !r.eof() && r.peek() != q {
		if r.peek() == '\\' && q != '`' {
			r.next()
		}
		r.next()
	}
	r.next()
	raw := r.src[start:r.off]
	if q == '\'' {
		// single-quoted pigeon literal: same escapes as double-quoted
		raw = `"` + strings.ReplaceAll(strings.ReplaceAll(raw[1:len(raw)-1], `"`, `\"`), `\'`, `'`) + `"`
	}
	s, err := strconv.Unquote(raw)
	if err != nil {
		r.fail("bad string literal " + raw)
	}
	return s
}

// isRuleStart: identifier (display string)? "<-" ahead (the end of a sequence).
func (r *reader) isRuleStart() bool {
	save := *r
	defer func() { *r = save }()
	if !isIdentStart(r.peek()) {
		return false
	}
	r.ident()
	r.skipWS()
	if r.peek() == '"' {
		r.stringLit()
		r.skipWS()
	}
	return r.hasPrefix("<-") || r.hasPrefix("=") && !r.hasPrefix("==") || r.hasPrefix("←")
}

func (r *reader) classMatcher() *Node {
	n := &Node{Kind: "class", Pos: r.pos()}
	start := r.off
	r.next() // [
	if r.peek() == '^' {
		n.Inverted = true
		r.next()
	}
	readChar := func() rune {
		c := r.next()
		if c != '\\' {
			return c
		}
		e := r.next()
		switch e {
		case 'n':
			return '\n'
		case 't':
			return '\t'
		case 'r':
			return '\r'
		case 'a':
			return '\a'
		case 'b':
			return '\b'
		case 'f':
			return '\f'
		case 'v':
			return '\v'
		case '\\', ']', '[', '^', '-':
			return e
		case 'x':
			v, _ := strconv.ParseUint(r.src[r.off:r.off+2], 16, 32)
			r.next()
			r.next()
			return rune(v)
		case 'u':
			v, _ := strconv.ParseUint(r.src[r.off:r.off+4], 16, 32)
			for k := 0; k < 4; k++ {
				r.next()
			}
			return rune(v)
		}
		r.fail("unsupported class escape")
		return 0
	}
	for !r.eof() && r.peek() != ']' {
		if r.hasPrefix(`\p`) {
			r.next()
			r.next()
			if r.peek() == '{' {
				r.next()
				s := r.off
				for r.peek() != '}' {
					r.next()
				}
				n.Classes = append(n.Classes, r.src[s:r.off])
				r.next()
			} else {
				n.Classes = append(n.Classes, string(r.next()))
			}
			continue
		}
		c := readChar()
		if r.peek() == '-' && r.off+1 < len(r.src) && r.src[r.off+1] != ']' {
			r.next()
			hi := readChar()
			n.Ranges = append(n.Ranges, c, hi)
		} else {
			n.Chars = append(n.Chars, c)
		}
	}
	r.next() // ]
	if r.peek() == 'i' && !isIdentPart(rune(r.src[r.off+1])) {
		n.IgnoreCase = true
		r.next()
	}
	n.Val = r.src[start:r.off]
	return n
}

func (r *reader) primary() *Node {
	p := r.pos()
	c := r.peek()
	switch {
	case c == '"' || c == '\'' || c == '`':
		n := &Node{Kind: "lit", Pos: p, Val: r.stringLit()}
		if r.peek() == 'i' && (r.off+1 >= len(r.src) || !isIdentPart(rune(r.src[r.off+1]))) {
			n.IgnoreCase = true
			r.next()
		}
		return n
	case c == '[':
		return r.classMatcher()
	case c == '.':
		r.next()
		return &Node{Kind: "any", Pos: p}
	case c == '(':
		r.next()
		r.skipWS()
		e := r.choice()
		r.skipWS()
		if r.peek() != ')' {
			r.fail("expected )")
		}
		r.next()
		return e
	case isIdentStart(c):
		return &Node{Kind: "ruleRef", Pos: p, Name: r.ident()}
	}
	r.fail("unexpected character " + strconv.QuoteRune(c))
	return nil
}

func (r *reader) suffixed() *Node {
	p := r.pos()
	e := r.primary()
	save := *r
	r.skipWS()
	switch r.peek() {
	case '?':
		r.next()
		return &Node{Kind: "zeroOrOne", Pos: p, Kids: []*Node{e}}
	case '*':
		r.next()
		return &Node{Kind: "zeroOrMore", Pos: p, Kids: []*Node{e}}
	case '+':
		r.next()
		return &Node{Kind: "oneOrMore", Pos: p, Kids: []*Node{e}}
	}
	*r = save
	return e
}

func (r *reader) prefixed() *Node {
	p := r.pos()
	c := r.peek()
	if c == '&' || c == '!' {
		r.next()
		r.skipWS()
		if r.peek() == '{' {
			code := r.codeBlock()
			k := "andCode"
			if c == '!' {
				k = "notCode"
			}
			return &Node{Kind: k, Pos: p, Code: code}
		}
		e := r.suffixed()
		k := "and"
		if c == '!' {
			k = "not"
		}
		return &Node{Kind: k, Pos: p, Kids: []*Node{e}}
	}
	return r.suffixed()
}

func (r *reader) labeled() *Node {
	p := r.pos()
	if isIdentStart(r.peek()) {
		save := *r
		id := r.ident()
		r.skipWS()
		if r.peek() == ':' {
			r.next()
			r.skipWS()
			return &Node{Kind: "labeled", Pos: p, Label: id, Kids: []*Node{r.prefixed()}}
		}
		*r = save
	}
	return r.prefixed()
}

func (r *reader) seq() *Node {
	p := r.pos()
	var kids []*Node
	for {
		kids = append(kids, r.labeled())
		save := *r
		r.skipWS()
		c := r.peek()
		if r.eof() || c == '/' || c == ')' || c == '{' || r.isRuleStart() {
			*r = save
			break
		}
	}
	var e *Node
	if len(kids) == 1 {
		e = kids[0]
	} else {
		e = &Node{Kind: "seq", Pos: p, Kids: kids}
	}
	save := *r
	r.skipWS()
	if r.peek() == '{' {
		code := r.codeBlock()
		return &Node{Kind: "action", Pos: p, Kids: []*Node{e}, Code: code}
	}
	*r = save
	return e
}

func (r *reader) choice() *Node {
	p := r.pos()
	alts := []*Node{r.seq()}
	for {
		save := *r
		r.skipWS()
		if r.peek() == '/' && !r.hasPrefix("//") && !r.hasPrefix("/*") {
			r.next()
			r.skipWS()
			alts = append(alts, r.seq())
			continue
		}
		*r = save
		break
	}
	if len(alts) == 1 {
		return alts[0]
	}
	return &Node{Kind: "choice", Pos: p, Kids: alts}
}

// Parse reads a grammar.
func Parse(src string) (g *Grammar, err error) {
	defer func() {
		if p := recover(); p != nil {
			err = fmt.Errorf("%v", p)
		}
	}()
	r := &reader{src: src, line: 1, col: 1}
	g = &Grammar{}
	r.skipWS()
	if r.peek() == '{' {
		g.Init = r.codeBlock()
	}
	for {
		r.skipWS()
		if r.eof() {
			break
		}
		rule := &Rule{Pos: r.pos()}
		rule.Name = r.ident()
		if rule.Name == "" {
			r.fail("expected rule name")
		}
		r.skipWS()
		if r.peek() == '"' {
			rule.Display = r.stringLit()
			r.skipWS()
		}
		switch {
		case r.hasPrefix("<-"):
			r.next()
			r.next()
		case r.hasPrefix("←"), r.hasPrefix("="):
			r.next()
		default:
			r.fail("expected <-")
		}
		r.skipWS()
		rule.Expr = r.choice()
		number(rule.Expr, new(int))
		assignLabels(rule.Expr, nil)
		g.Rules = append(g.Rules, rule)
	}
	return g, nil
}

func number(n *Node, k *int) {
	*k++
	n.Idx = *k
	for _, c := range n.Kids {
		number(c, k)
	}
}

// assignLabels computes the label lists handed to code blocks: an action gets
// the labels of its sequence elements; a predicate those preceding it.
func assignLabels(n *Node, _ []string) {
	switch n.Kind {
	case "action":
		inner := n.Kids[0]
		var labels []string
		elems := []*Node{inner}
		if inner.Kind == "seq" {
			elems = inner.Kids
		}
		for _, e := range elems {
			if e.Kind == "andCode" || e.Kind == "notCode" {
				e.Labels = append([]string{}, labels...)
			}
			if e.Kind == "labeled" {
				labels = append(labels, e.Label)
			}
		}
		n.Labels = labels
	case "seq":
		var labels []string
		for _, e := range n.Kids {
			if (e.Kind == "andCode" || e.Kind == "notCode") && e.Labels == nil {
				e.Labels = append([]string{}, labels...)
			}
			if e.Kind == "labeled" {
				labels = append(labels, e.Label)
			}
		}
	}
	for _, c := range n.Kids {
		assignLabels(c, nil)
	}
}

// ---- Go rendering

func runes(rs []rune) string {
	parts := make([]string, len(rs))
	for i, r := range rs {
		parts[i] = strconv.QuoteRune(r)
	}
	return "[]rune{" + strings.Join(parts, ", ") + "}"
}

func strs(ss []string) string {
	parts := make([]string, len(ss))
	for i, s := range ss {
		parts[i] = strconv.Quote(s)
	}
	return "[]string{" + strings.Join(parts, ", ") + "}"
}

func (n *Node) goLit(sb *strings.Builder, ind string) {
	fmt.Fprintf(sb, "&pegNode{Kind: %q, Line: %d, Col: %d, Off: %d, Idx: %d", n.Kind, n.Pos.Line, n.Pos.Col, n.Pos.Off, n.Idx)
	if n.Label != "" {
		fmt.Fprintf(sb, ", Label: %q", n.Label)
	}
	if n.Name != "" {
		fmt.Fprintf(sb, ", Name: %q", n.Name)
	}
	if n.Kind == "lit" || n.Kind == "class" {
		fmt.Fprintf(sb, ", Val: %q", n.Val)
	}
	if n.IgnoreCase {
		sb.WriteString(", IgnoreCase: true")
	}
	if n.Inverted {
		sb.WriteString(", Inverted: true")
	}
	if len(n.Chars) > 0 {
		sb.WriteString(", Chars: " + runes(n.Chars))
	}
	if len(n.Ranges) > 0 {
		sb.WriteString(", Ranges: " + runes(n.Ranges))
	}
	if len(n.Classes) > 0 {
		sb.WriteString(", Classes: " + strs(n.Classes))
	}
	if n.Code != "" {
		sb.WriteString(", HasCode: true, Labels: " + strs(n.Labels))
	}
	if len(n.Kids) > 0 {
		sb.WriteString(", Kids: []*pegNode{\n")
		for _, c := range n.Kids {
			sb.WriteString(ind + "\t")
			c.goLit(sb, ind+"\t")
			sb.WriteString(",\n")
		}
		sb.WriteString(ind + "}")
	}
	sb.WriteString("}")
}

func collectCode(rule string, n *Node, out *[]codeBlock) {
	if n.Code != "" {
		*out = append(*out, codeBlock{rule, n})
	}
	for _, c := range n.Kids {
		collectCode(rule, c, out)
	}
}

type codeBlock struct {
	rule string
	n    *Node
}

// GoSource renders the grammar; imports is the import list of grammar.go (path
// -> one exported identifier to reference, so unused imports do not break the build).
func (g *Grammar) GoSource(imports map[string]string) string {
	var sb strings.Builder
	sb.WriteString("// Code generated by vcheck from grammar/grammar.peg on every run. DO NOT EDIT.\n\npackage grammar\n\n")
	if len(imports) == 0 {
		imports = map[string]string{"errors": "New", "fmt": "Sprintf", "strconv": "Itoa", "strings": "Join", "github.com/mitchellh/pointerstructure": "Parse"}
	}
	var paths []string
	for p := range imports {
		paths = append(paths, p)
	}
	sort.Strings(paths)
	sb.WriteString("import (\n")
	for _, p := range paths {
		fmt.Fprintf(&sb, "\t%q\n", p)
	}
	sb.WriteString(")\n\n")
	for _, p := range paths {
		name := p[strings.LastIndex(p, "/")+1:]
		fmt.Fprintf(&sb, "var _ = %s.%s\n", name, imports[p])
	}
	sb.WriteString("\n")
	sb.WriteString(`type pegNode struct {
	Kind                 string
	Line, Col, Off, Idx  int
	Label, Name, Val     string
	IgnoreCase, Inverted bool
	Chars, Ranges        []rune
	Classes              []string
	HasCode              bool
	Labels               []string
	Kids                 []*pegNode
}

type pegRule struct {
	Name, Display  string
	Line, Col, Off int
	Expr           *pegNode
}

`)
	sb.WriteString("var pegRules = []*pegRule{\n")
	for _, r := range g.Rules {
		fmt.Fprintf(&sb, "\t{Name: %q, Display: %q, Line: %d, Col: %d, Off: %d, Expr: ", r.Name, r.Display, r.Pos.Line, r.Pos.Col, r.Pos.Off)
		r.Expr.goLit(&sb, "\t")
		sb.WriteString("},\n")
	}
	sb.WriteString("}\n\n")
	var blocks []codeBlock
	for _, r := range g.Rules {
		collectCode(r.Name, r.Expr, &blocks)
	}
	// code blocks as methods, exactly as written in the grammar
	for _, b := range blocks {
		params := ""
		if len(b.n.Labels) > 0 {
			params = strings.Join(b.n.Labels, ", ") + " any"
		}
		ret := "(any, error)"
		if b.n.Kind != "action" {
			ret = "(bool, error)"
		}
		fmt.Fprintf(&sb, "func (c *current) peg%s%d(%s) %s {%s}\n\n", b.rule, b.n.Idx, params, ret, b.n.Code)
	}
	sb.WriteString("// pegActions / pegPreds dispatch a code block on a label stack, passing the\n// labels in the grammar's order.\nvar pegActions = map[string]func(c *current, stack map[string]any) (any, error){\n")
	for _, b := range blocks {
		if b.n.Kind != "action" {
			continue
		}
		args := make([]string, len(b.n.Labels))
		for i, l := range b.n.Labels {
			args[i] = fmt.Sprintf("stack[%q]", l)
		}
		fmt.Fprintf(&sb, "\t\"%s:%d\": func(c *current, stack map[string]any) (any, error) { return c.peg%s%d(%s) },\n", b.rule, b.n.Idx, b.rule, b.n.Idx, strings.Join(args, ", "))
	}
	sb.WriteString("}\n\nvar pegPreds = map[string]func(c *current, stack map[string]any) (bool, error){\n")
	for _, b := range blocks {
		if b.n.Kind == "action" {
			continue
		}
		args := make([]string, len(b.n.Labels))
		for i, l := range b.n.Labels {
			args[i] = fmt.Sprintf("stack[%q]", l)
		}
		fmt.Fprintf(&sb, "\t\"%s:%d\": func(c *current, stack map[string]any) (bool, error) { return c.peg%s%d(%s) },\n", b.rule, b.n.Idx, b.rule, b.n.Idx, strings.Join(args, ", "))
	}
	sb.WriteString("}\n")
	return sb.String()
}
