// Package smt: hash-consed SMT-LIB2 terms (Bool, BitVec, FloatingPoint) with
// constant folding, and a pipe to an incremental solver process.
package smt

import (
	"fmt"
	"math"
	"math/bits"
	"strings"
	"sync"
)

type SortKind uint8

const (
	SBool SortKind = iota
	SBV
	SFP32
	SFP64
)

type Sort struct {
	K SortKind
	W int // bit width for SBV
}

func (s Sort) String() string {
	switch s.K {
	case SBool:
		return "Bool"
	case SBV:
		return fmt.Sprintf("(_ BitVec %d)", s.W)
	case SFP32:
		return "(_ FloatingPoint 8 24)"
	case SFP64:
		return "(_ FloatingPoint 11 53)"
	}
	return "?"
}

var Bool = Sort{K: SBool}

func BV(w int) Sort { return Sort{K: SBV, W: w} }

var FP32 = Sort{K: SFP32}
var FP64 = Sort{K: SFP64}

// Term is an immutable hash-consed node.
type Term struct {
	ID    int
	Op    string // "const", "var", or an SMT-LIB operator (possibly indexed, e.g. "(_ extract 7 0)")
	Args  []*Term
	S     Sort
	C     uint64 // constant payload: BV value (masked), Bool 0/1, FP bit pattern
	Name  string // for vars
	size  int
	str   string
	named bool
}

func (t *Term) IsConst() bool { return t.Op == "const" }
func (t *Term) IsVar() bool   { return t.Op == "var" }
func (t *Term) Size() int     { return t.size }

var (
	mu     sync.Mutex
	table  = map[string]*Term{}
	nextID = 1
)

func mk(op string, s Sort, c uint64, name string, args ...*Term) *Term {
	var sb strings.Builder
	sb.WriteString(op)
	sb.WriteByte('|')
	fmt.Fprintf(&sb, "%d.%d|%d|%s", s.K, s.W, c, name)
	for _, a := range args {
		fmt.Fprintf(&sb, "|%d", a.ID)
	}
	key := sb.String()
	mu.Lock()
	defer mu.Unlock()
	if t, ok := table[key]; ok {
		return t
	}
	sz := 1
	for _, a := range args {
		sz += a.size
		if sz > 1<<30 {
			sz = 1 << 30
		}
	}
	t := &Term{ID: nextID, Op: op, Args: args, S: s, C: c, Name: name, size: sz}
	nextID++
	table[key] = t
	return t
}

// TableSize reports the number of live hash-consed terms.
func TableSize() int { mu.Lock(); defer mu.Unlock(); return len(table) }

// ResetTable drops all hash-consed terms (only safe when no Term is retained).
func ResetTable() {
	mu.Lock()
	table = map[string]*Term{}
	mu.Unlock()
}

func mask(w int) uint64 {
	if w >= 64 {
		return ^uint64(0)
	}
	return (uint64(1) << uint(w)) - 1
}

// ---- constructors

var True = mk("const", Bool, 1, "")
var False = mk("const", Bool, 0, "")

func BoolC(b bool) *Term {
	if b {
		return True
	}
	return False
}

func BVC(w int, v uint64) *Term { return mk("const", BV(w), v&mask(w), "") }

func FPC32(f float32) *Term { return mk("const", FP32, uint64(math.Float32bits(f)), "") }
func FPC64(f float64) *Term { return mk("const", FP64, math.Float64bits(f), "") }

func Var(name string, s Sort) *Term { return mk("var", s, 0, name) }

func sext(v uint64, w int) int64 {
	if w >= 64 {
		return int64(v)
	}
	sh := uint(64 - w)
	return int64(v<<sh) >> sh
}

// ---- Bool ops

func Not(a *Term) *Term {
	if a.IsConst() {
		return BoolC(a.C == 0)
	}
	if a.Op == "not" {
		return a.Args[0]
	}
	return mk("not", Bool, 0, "", a)
}

func And(as ...*Term) *Term {
	var out []*Term
	for _, a := range as {
		if a.IsConst() {
			if a.C == 0 {
				return False
			}
			continue
		}
		if a.Op == "and" {
			out = append(out, a.Args...)
			continue
		}
		out = append(out, a)
	}
	out = dedupe(out)
	for _, a := range out {
		for _, b := range out {
			if a.Op == "not" && a.Args[0] == b {
				return False
			}
		}
	}
	switch len(out) {
	case 0:
		return True
	case 1:
		return out[0]
	}
	return mk("and", Bool, 0, "", out...)
}

func Or(as ...*Term) *Term {
	var out []*Term
	for _, a := range as {
		if a.IsConst() {
			if a.C == 1 {
				return True
			}
			continue
		}
		if a.Op == "or" {
			out = append(out, a.Args...)
			continue
		}
		out = append(out, a)
	}
	out = dedupe(out)
	for _, a := range out {
		for _, b := range out {
			if a.Op == "not" && a.Args[0] == b {
				return True
			}
		}
	}
	switch len(out) {
	case 0:
		return False
	case 1:
		return out[0]
	}
	return mk("or", Bool, 0, "", out...)
}

func dedupe(ts []*Term) []*Term {
	if len(ts) < 2 {
		return ts
	}
	seen := map[int]bool{}
	out := ts[:0:0]
	for _, t := range ts {
		if !seen[t.ID] {
			seen[t.ID] = true
			out = append(out, t)
		}
	}
	return out
}

func Implies(a, b *Term) *Term { return Or(Not(a), b) }

func Ite(c, a, b *Term) *Term {
	if c.IsConst() {
		if c.C == 1 {
			return a
		}
		return b
	}
	if a == b {
		return a
	}
	if a.S.K == SBool {
		if a.IsConst() && b.IsConst() {
			if a.C == 1 {
				return c
			}
			return Not(c)
		}
		if a.IsConst() {
			if a.C == 1 {
				return Or(c, b)
			}
			return And(Not(c), b)
		}
		if b.IsConst() {
			if b.C == 1 {
				return Or(Not(c), a)
			}
			return And(c, a)
		}
	}
	return mk("ite", a.S, 0, "", c, a, b)
}

// Eq is sort-generic equality. For FP sorts this is SMT "=" (bit identity up
// to NaN), NOT IEEE ==; use FPEq for Go's ==.
func Eq(a, b *Term) *Term {
	if a == b {
		return True
	}
	if a.S != b.S {
		panic(fmt.Sprintf("smt.Eq: sort mismatch %v vs %v (%s / %s)", a.S, b.S, a, b))
	}
	if a.IsConst() && b.IsConst() && a.S.K != SFP32 && a.S.K != SFP64 {
		return BoolC(a.C == b.C)
	}
	if a.S.K == SBool {
		if a.IsConst() {
			a, b = b, a
		}
		if b.IsConst() {
			if b.C == 1 {
				return a
			}
			return Not(a)
		}
	}
	if a.ID > b.ID {
		a, b = b, a
	}
	// (zero_extend x) == const  where const does not fit -> false; else narrow
	if a.S.K == SBV {
		x, c := a, b
		if x.IsConst() {
			x, c = c, x
		}
		if c.IsConst() && strings.HasPrefix(x.Op, "(_ zero_extend") {
			in := x.Args[0]
			if c.C&^mask(in.S.W) != 0 {
				return False
			}
			return Eq(in, BVC(in.S.W, c.C))
		}
		if c.IsConst() && x.Op == "ite" && x.Args[1].IsConst() && x.Args[2].IsConst() {
			return Ite(x.Args[0], BoolC(x.Args[1].C == c.C), BoolC(x.Args[2].C == c.C))
		}
	}
	return mk("=", Bool, 0, "", a, b)
}

// ---- BV ops

func bvbin(op string, a, b *Term, f func(x, y uint64, w int) (uint64, bool)) *Term {
	if a.S != b.S || a.S.K != SBV {
		panic(fmt.Sprintf("smt.%s: sort mismatch %v vs %v", op, a.S, b.S))
	}
	if a.IsConst() && b.IsConst() {
		if v, ok := f(a.C, b.C, a.S.W); ok {
			return BVC(a.S.W, v)
		}
	}
	return mk(op, a.S, 0, "", a, b)
}

func Add(a, b *Term) *Term {
	if a.IsConst() && a.C == 0 {
		return b
	}
	if b.IsConst() && b.C == 0 {
		return a
	}
	return bvbin("bvadd", a, b, func(x, y uint64, w int) (uint64, bool) { return x + y, true })
}
func Sub(a, b *Term) *Term {
	if b.IsConst() && b.C == 0 {
		return a
	}
	if a == b {
		return BVC(a.S.W, 0)
	}
	return bvbin("bvsub", a, b, func(x, y uint64, w int) (uint64, bool) { return x - y, true })
}
func Mul(a, b *Term) *Term {
	if a.IsConst() && a.C == 1 {
		return b
	}
	if b.IsConst() && b.C == 1 {
		return a
	}
	if (a.IsConst() && a.C == 0) || (b.IsConst() && b.C == 0) {
		return BVC(a.S.W, 0)
	}
	return bvbin("bvmul", a, b, func(x, y uint64, w int) (uint64, bool) { return x * y, true })
}
func UDiv(a, b *Term) *Term {
	return bvbin("bvudiv", a, b, func(x, y uint64, w int) (uint64, bool) {
		if y == 0 {
			return 0, false
		}
		return x / y, true
	})
}
func URem(a, b *Term) *Term {
	return bvbin("bvurem", a, b, func(x, y uint64, w int) (uint64, bool) {
		if y == 0 {
			return 0, false
		}
		return x % y, true
	})
}
func SDiv(a, b *Term) *Term {
	return bvbin("bvsdiv", a, b, func(x, y uint64, w int) (uint64, bool) {
		sx, sy := sext(x, w), sext(y, w)
		if sy == 0 {
			return 0, false
		}
		if sy == -1 {
			return uint64(-sx), true
		}
		return uint64(sx / sy), true
	})
}
func SRem(a, b *Term) *Term {
	return bvbin("bvsrem", a, b, func(x, y uint64, w int) (uint64, bool) {
		sx, sy := sext(x, w), sext(y, w)
		if sy == 0 {
			return 0, false
		}
		if sy == -1 {
			return 0, true
		}
		return uint64(sx % sy), true
	})
}
func BVAnd(a, b *Term) *Term {
	if a == b {
		return a
	}
	if a.IsConst() && a.C == 0 || b.IsConst() && b.C == 0 {
		return BVC(a.S.W, 0)
	}
	if a.IsConst() && a.C == mask(a.S.W) {
		return b
	}
	if b.IsConst() && b.C == mask(a.S.W) {
		return a
	}
	return bvbin("bvand", a, b, func(x, y uint64, w int) (uint64, bool) { return x & y, true })
}
func BVOr(a, b *Term) *Term {
	if a == b {
		return a
	}
	if a.IsConst() && a.C == 0 {
		return b
	}
	if b.IsConst() && b.C == 0 {
		return a
	}
	return bvbin("bvor", a, b, func(x, y uint64, w int) (uint64, bool) { return x | y, true })
}
func BVXor(a, b *Term) *Term {
	if a == b {
		return BVC(a.S.W, 0)
	}
	return bvbin("bvxor", a, b, func(x, y uint64, w int) (uint64, bool) { return x ^ y, true })
}
func Shl(a, b *Term) *Term {
	if b.IsConst() && b.C == 0 {
		return a
	}
	return bvbin("bvshl", a, b, func(x, y uint64, w int) (uint64, bool) {
		if y >= uint64(w) {
			return 0, true
		}
		return x << y, true
	})
}
func LShr(a, b *Term) *Term {
	if b.IsConst() && b.C == 0 {
		return a
	}
	return bvbin("bvlshr", a, b, func(x, y uint64, w int) (uint64, bool) {
		if y >= uint64(w) {
			return 0, true
		}
		return x >> y, true
	})
}
func AShr(a, b *Term) *Term {
	if b.IsConst() && b.C == 0 {
		return a
	}
	return bvbin("bvashr", a, b, func(x, y uint64, w int) (uint64, bool) {
		sx := sext(x, w)
		if y >= uint64(w) {
			if sx < 0 {
				return ^uint64(0), true
			}
			return 0, true
		}
		return uint64(sx >> y), true
	})
}
func BVNot(a *Term) *Term {
	if a.IsConst() {
		return BVC(a.S.W, ^a.C)
	}
	return mk("bvnot", a.S, 0, "", a)
}
func Neg(a *Term) *Term {
	if a.IsConst() {
		return BVC(a.S.W, -a.C)
	}
	return mk("bvneg", a.S, 0, "", a)
}

func bvcmp(op string, a, b *Term, f func(x, y uint64, w int) bool) *Term {
	if a.S != b.S || a.S.K != SBV {
		panic(fmt.Sprintf("smt.%s: sort mismatch %v vs %v", op, a.S, b.S))
	}
	if a.IsConst() && b.IsConst() {
		return BoolC(f(a.C, b.C, a.S.W))
	}
	return mk(op, Bool, 0, "", a, b)
}

func ULt(a, b *Term) *Term {
	if a == b {
		return False
	}
	if b.IsConst() && b.C == 0 {
		return False
	}
	// zero_extend(x) < c
	if b.IsConst() && strings.HasPrefix(a.Op, "(_ zero_extend") {
		in := a.Args[0]
		if b.C > mask(in.S.W) {
			return True
		}
		return ULt(in, BVC(in.S.W, b.C))
	}
	if a.IsConst() && strings.HasPrefix(b.Op, "(_ zero_extend") {
		in := b.Args[0]
		if a.C >= mask(in.S.W) {
			return False
		}
		return ULt(BVC(in.S.W, a.C), in)
	}
	return bvcmp("bvult", a, b, func(x, y uint64, w int) bool { return x < y })
}
func ULe(a, b *Term) *Term { return Not(ULt(b, a)) }
func SLt(a, b *Term) *Term {
	if a == b {
		return False
	}
	// comparisons of zero-extended values with non-negative constants are unsigned
	if b.IsConst() && strings.HasPrefix(a.Op, "(_ zero_extend") && sext(b.C, b.S.W) >= 0 {
		return ULt(a, b)
	}
	if a.IsConst() && strings.HasPrefix(b.Op, "(_ zero_extend") && sext(a.C, a.S.W) >= 0 {
		return ULt(a, b)
	}
	if b.IsConst() && strings.HasPrefix(a.Op, "(_ zero_extend") && sext(b.C, b.S.W) < 0 {
		return False
	}
	if a.IsConst() && strings.HasPrefix(b.Op, "(_ zero_extend") && sext(a.C, a.S.W) < 0 {
		return True
	}
	return bvcmp("bvslt", a, b, func(x, y uint64, w int) bool { return sext(x, w) < sext(y, w) })
}
func SLe(a, b *Term) *Term { return Not(SLt(b, a)) }

func Extract(hi, lo int, a *Term) *Term {
	w := hi - lo + 1
	if w == a.S.W {
		return a
	}
	if a.IsConst() {
		return BVC(w, a.C>>uint(lo))
	}
	if strings.HasPrefix(a.Op, "(_ zero_extend") || strings.HasPrefix(a.Op, "(_ sign_extend") {
		in := a.Args[0]
		if hi < in.S.W {
			return Extract(hi, lo, in)
		}
		if lo == 0 && strings.HasPrefix(a.Op, "(_ zero_extend") {
			return ZeroExt(w-in.S.W, in)
		}
		if lo == 0 {
			return SignExt(w-in.S.W, in)
		}
	}
	return mk(fmt.Sprintf("(_ extract %d %d)", hi, lo), BV(w), 0, "", a)
}
func ZeroExt(n int, a *Term) *Term {
	if n == 0 {
		return a
	}
	if a.IsConst() {
		return BVC(a.S.W+n, a.C)
	}
	if strings.HasPrefix(a.Op, "(_ zero_extend") {
		in := a.Args[0]
		return ZeroExt(a.S.W+n-in.S.W, in)
	}
	return mk(fmt.Sprintf("(_ zero_extend %d)", n), BV(a.S.W+n), 0, "", a)
}
func SignExt(n int, a *Term) *Term {
	if n == 0 {
		return a
	}
	if a.IsConst() {
		return BVC(a.S.W+n, uint64(sext(a.C, a.S.W)))
	}
	if strings.HasPrefix(a.Op, "(_ zero_extend") {
		in := a.Args[0]
		return ZeroExt(a.S.W+n-in.S.W, in)
	}
	return mk(fmt.Sprintf("(_ sign_extend %d)", n), BV(a.S.W+n), 0, "", a)
}
func Concat(a, b *Term) *Term {
	if a.IsConst() && b.IsConst() && a.S.W+b.S.W <= 64 {
		return BVC(a.S.W+b.S.W, a.C<<uint(b.S.W)|b.C)
	}
	return mk("concat", BV(a.S.W+b.S.W), 0, "", a, b)
}

// Resize converts a bit-vector to width w (truncate, or sign/zero extend).
func Resize(a *Term, w int, signed bool) *Term {
	switch {
	case w == a.S.W:
		return a
	case w < a.S.W:
		return Extract(w-1, 0, a)
	case signed:
		return SignExt(w-a.S.W, a)
	default:
		return ZeroExt(w-a.S.W, a)
	}
}

// ---- FP ops (no folding beyond the obvious)

func fpw(s Sort) (int, int) {
	if s.K == SFP32 {
		return 8, 24
	}
	return 11, 53
}

func FPEq(a, b *Term) *Term {
	if a.IsConst() && b.IsConst() {
		return BoolC(fpval(a) == fpval(b))
	}
	return mk("fp.eq", Bool, 0, "", a, b)
}
func FPLt(a, b *Term) *Term {
	if a.IsConst() && b.IsConst() {
		return BoolC(fpval(a) < fpval(b))
	}
	return mk("fp.lt", Bool, 0, "", a, b)
}
func FPLe(a, b *Term) *Term {
	if a.IsConst() && b.IsConst() {
		return BoolC(fpval(a) <= fpval(b))
	}
	return mk("fp.leq", Bool, 0, "", a, b)
}
func FPNeg(a *Term) *Term { return mk("fp.neg", a.S, 0, "", a) }
func FPIsNaN(a *Term) *Term {
	if a.IsConst() {
		return BoolC(math.IsNaN(fpval(a)))
	}
	return mk("fp.isNaN", Bool, 0, "", a)
}
func FPArith(op string, a, b *Term) *Term { // op in fp.add fp.sub fp.mul fp.div
	return mk(op+" RNE", a.S, 0, "", a, b)
}
func fpval(a *Term) float64 {
	if a.S.K == SFP32 {
		return float64(math.Float32frombits(uint32(a.C)))
	}
	return math.Float64frombits(a.C)
}

// FPToFP converts between FP sorts (RNE).
func FPToFP(a *Term, to Sort) *Term {
	if a.S == to {
		return a
	}
	if a.IsConst() {
		if to.K == SFP32 {
			return FPC32(float32(fpval(a)))
		}
		return FPC64(fpval(a))
	}
	e, s := fpw(to)
	return mk(fmt.Sprintf("(_ to_fp %d %d) RNE", e, s), to, 0, "", a)
}

// FPFromBV converts an integer bit-vector to FP (RNE).
func FPFromBV(a *Term, signed bool, to Sort) *Term {
	e, s := fpw(to)
	if signed {
		return mk(fmt.Sprintf("(_ to_fp %d %d) RNE", e, s), to, 0, "", a)
	}
	return mk(fmt.Sprintf("(_ to_fp_unsigned %d %d) RNE", e, s), to, 0, "", a)
}

// FPToBV converts FP to an integer bit-vector (RTZ); unspecified when out of range.
func FPToBV(a *Term, signed bool, w int) *Term {
	if signed {
		return mk(fmt.Sprintf("(_ fp.to_sbv %d) RTZ", w), BV(w), 0, "", a)
	}
	return mk(fmt.Sprintf("(_ fp.to_ubv %d) RTZ", w), BV(w), 0, "", a)
}

// FPFromBits reinterprets a bit-vector as FP (math.Float64frombits).
func FPFromBits(a *Term, to Sort) *Term {
	if a.IsConst() {
		return mk("const", to, a.C, "")
	}
	e, s := fpw(to)
	return mk(fmt.Sprintf("(_ to_fp %d %d)", e, s), to, 0, "", a)
}

// ---- printing

const nameThreshold = 24

func (t *Term) String() string { return t.print(nil) }

// print renders t; if emit != nil, big shared subterms are emitted as
// define-fun through emit (once per id, tracked by caller) and referenced by name.
func (t *Term) print(emit func(*Term)) string {
	switch t.Op {
	case "const":
		switch t.S.K {
		case SBool:
			if t.C == 1 {
				return "true"
			}
			return "false"
		case SBV:
			if t.S.W%4 == 0 {
				return fmt.Sprintf("#x%0*x", t.S.W/4, t.C)
			}
			return fmt.Sprintf("#b%0*b", t.S.W, t.C)
		case SFP32:
			b := uint32(t.C)
			return fmt.Sprintf("(fp #b%b #b%08b #b%023b)", b>>31, (b>>23)&0xff, b&0x7fffff)
		case SFP64:
			b := t.C
			return fmt.Sprintf("(fp #b%b #b%011b #b%052b)", b>>63, (b>>52)&0x7ff, b&(1<<52-1))
		}
	case "var":
		return t.Name
	}
	if emit != nil && t.size > nameThreshold {
		emit(t)
		return fmt.Sprintf("$t%d", t.ID)
	}
	return t.body(emit)
}

func (t *Term) body(emit func(*Term)) string {
	if emit == nil && t.str != "" {
		return t.str
	}
	var sb strings.Builder
	sb.WriteByte('(')
	sb.WriteString(t.Op)
	for _, a := range t.Args {
		sb.WriteByte(' ')
		sb.WriteString(a.print(emit))
	}
	sb.WriteByte(')')
	s := sb.String()
	if emit == nil && t.size <= 64 {
		t.str = s
	}
	return s
}

// Vars collects the free variables of t into set.
func (t *Term) Vars(set map[*Term]bool, seen map[int]bool) {
	if seen[t.ID] {
		return
	}
	seen[t.ID] = true
	if t.Op == "var" {
		set[t] = true
		return
	}
	for _, a := range t.Args {
		a.Vars(set, seen)
	}
}

// Eval evaluates t under a model (var name -> value bits). FP ops other than
// constants/vars are not evaluated (ok=false).
func (t *Term) Eval(m map[string]uint64) (v uint64, ok bool) {
	switch t.Op {
	case "const":
		return t.C, true
	case "var":
		v, ok = m[t.Name]
		return v, ok
	}
	vs := make([]uint64, len(t.Args))
	for i, a := range t.Args {
		x, ok := a.Eval(m)
		if !ok {
			return 0, false
		}
		vs[i] = x
	}
	b2u := func(b bool) uint64 {
		if b {
			return 1
		}
		return 0
	}
	w := 0
	if len(t.Args) > 0 {
		w = t.Args[0].S.W
	}
	switch t.Op {
	case "not":
		return 1 - vs[0], true
	case "and":
		for _, x := range vs {
			if x == 0 {
				return 0, true
			}
		}
		return 1, true
	case "or":
		for _, x := range vs {
			if x == 1 {
				return 1, true
			}
		}
		return 0, true
	case "ite":
		if vs[0] == 1 {
			return vs[1], true
		}
		return vs[2], true
	case "=":
		if t.Args[0].S.K == SFP32 || t.Args[0].S.K == SFP64 {
			return 0, false
		}
		return b2u(vs[0] == vs[1]), true
	case "bvadd":
		return (vs[0] + vs[1]) & mask(w), true
	case "bvsub":
		return (vs[0] - vs[1]) & mask(w), true
	case "bvmul":
		return (vs[0] * vs[1]) & mask(w), true
	case "bvand":
		return vs[0] & vs[1], true
	case "bvor":
		return vs[0] | vs[1], true
	case "bvxor":
		return vs[0] ^ vs[1], true
	case "bvnot":
		return ^vs[0] & mask(w), true
	case "bvneg":
		return (-vs[0]) & mask(w), true
	case "bvult":
		return b2u(vs[0] < vs[1]), true
	case "bvslt":
		return b2u(sext(vs[0], w) < sext(vs[1], w)), true
	case "bvshl":
		if vs[1] >= uint64(w) {
			return 0, true
		}
		return (vs[0] << vs[1]) & mask(w), true
	case "bvlshr":
		if vs[1] >= uint64(w) {
			return 0, true
		}
		return vs[0] >> vs[1], true
	case "bvudiv":
		if vs[1] == 0 {
			return mask(w), true
		}
		return vs[0] / vs[1], true
	case "bvurem":
		if vs[1] == 0 {
			return vs[0], true
		}
		return vs[0] % vs[1], true
	case "concat":
		return vs[0]<<uint(t.Args[1].S.W) | vs[1], true
	}
	var a, b int
	if n, _ := fmt.Sscanf(t.Op, "(_ extract %d %d)", &a, &b); n == 2 {
		return (vs[0] >> uint(b)) & mask(a-b+1), true
	}
	if n, _ := fmt.Sscanf(t.Op, "(_ zero_extend %d)", &a); n == 1 {
		return vs[0], true
	}
	if n, _ := fmt.Sscanf(t.Op, "(_ sign_extend %d)", &a); n == 1 {
		return uint64(sext(vs[0], w)) & mask(w+a), true
	}
	return 0, false
}

var _ = bits.Len
