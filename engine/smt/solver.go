package smt

import (
	"bufio"
	"fmt"
	"io"
	"os"
	"os/exec"
	"strconv"
	"strings"
	"time"
)

type Result int

const (
	Unsat Result = iota
	Sat
	Unknown
)

func (r Result) String() string { return [...]string{"unsat", "sat", "unknown"}[r] }

// Stats are cumulative per Solver.
type Stats struct {
	Queries, SatN, UnsatN, UnknownN, Errors int
	Time                                    time.Duration
}

// Solver is one long-lived incremental solver process plus the bookkeeping
// of what has been declared/defined since the last Reset.
type Solver struct {
	Kind      string // "z3", "z3-new", "cvc5"
	cmd       *exec.Cmd
	in        io.WriteCloser
	out       *bufio.Reader
	declared  map[int]bool // term ids of vars declared / named terms defined
	TimeoutMs int
	Stats     Stats
	Log       io.Writer // optional transcript
	pending   strings.Builder
	LastErr   string
	// OnRestart is called after the solver process had to be replaced (it
	// died, or the watchdog killed it because it ignored its own timeout):
	// the caller re-asserts whatever must hold in the fresh process.
	OnRestart func()
	Restarts  int
	fresh     bool // the process was replaced during the last check: there is no frame to pop
}

func NewSolver(kind string, timeoutMs int) (*Solver, error) {
	s := &Solver{Kind: kind, TimeoutMs: timeoutMs}
	if err := s.start(); err != nil {
		return nil, err
	}
	return s, nil
}

func (s *Solver) start() error {
	var cmd *exec.Cmd
	switch s.Kind {
	case "z3", "z3-new":
		cmd = exec.Command(s.Kind, "-in", "-smt2")
	case "cvc5":
		cmd = exec.Command("cvc5", "--incremental", "--produce-models", "--lang=smt2", fmt.Sprintf("--tlimit-per=%d", s.TimeoutMs))
	default:
		return fmt.Errorf("unknown solver %q", s.Kind)
	}
	in, err := cmd.StdinPipe()
	if err != nil {
		return err
	}
	out, err := cmd.StdoutPipe()
	if err != nil {
		return err
	}
	cmd.Stderr = os.Stderr
	if err := cmd.Start(); err != nil {
		return err
	}
	s.cmd, s.in, s.out = cmd, in, bufio.NewReaderSize(out, 1<<16)
	s.Reset()
	return nil
}

func (s *Solver) Close() {
	if s.cmd != nil {
		s.in.Close()
		s.cmd.Process.Kill()
		s.cmd.Wait()
		s.cmd = nil
	}
}

func (s *Solver) send(str string) {
	if s.Log != nil {
		io.WriteString(s.Log, str)
	}
	s.pending.WriteString(str)
}

func (s *Solver) flush() {
	if s.pending.Len() > 0 {
		io.WriteString(s.in, s.pending.String())
		s.pending.Reset()
	}
}

// Reset clears all assertions and declarations.
func (s *Solver) Reset() {
	s.declared = map[int]bool{}
	s.send("(reset)\n")
	switch s.Kind {
	case "cvc5":
		s.send("(set-logic ALL)\n")
	default:
		s.send(fmt.Sprintf("(set-option :timeout %d)\n", s.TimeoutMs))
	}
}

// define emits declarations for all vars and definitions for big subterms of t.
func (s *Solver) define(t *Term) string {
	var emit func(*Term)
	emit = func(u *Term) {
		if s.declared[u.ID] {
			return
		}
		s.declared[u.ID] = true
		body := u.body(emit)
		s.send(fmt.Sprintf("(define-fun $t%d () %s %s)\n", u.ID, u.S, body))
	}
	s.declareVars(t, map[int]bool{})
	return t.print(emit)
}

func (s *Solver) declareVars(t *Term, seen map[int]bool) {
	if seen[t.ID] || (t.Op != "var" && s.declared[t.ID]) {
		return
	}
	seen[t.ID] = true
	if t.Op == "var" {
		if !s.declared[t.ID] {
			s.declared[t.ID] = true
			s.send(fmt.Sprintf("(declare-const %s %s)\n", t.Name, t.S))
		}
		return
	}
	for _, a := range t.Args {
		s.declareVars(a, seen)
	}
}

// Assert adds t permanently (until Reset).
func (s *Solver) Assert(t *Term) {
	if t == True {
		return
	}
	str := s.define(t)
	s.send("(assert " + str + ")\n")
}

func (s *Solver) readLine() (string, error) {
	line, err := s.out.ReadString('\n')
	return strings.TrimSpace(line), err
}

func (s *Solver) checkRaw() Result {
	s.send("(check-sat)\n")
	s.flush()
	t0 := time.Now()
	s.Stats.Queries++
	// z3's :timeout is not honoured inside some preprocessing steps; a
	// wall-clock watchdog kills a process that overstays three times its limit
	proc := s.cmd.Process
	killed := false
	wd := time.AfterFunc(time.Duration(3*s.TimeoutMs)*time.Millisecond+5*time.Second, func() {
		killed = true
		proc.Kill()
	})
	defer wd.Stop()
	for {
		line, err := s.readLine()
		if err != nil {
			wd.Stop()
			if killed {
				s.Stats.UnknownN++
				s.LastErr = "solver exceeded its time limit and was replaced"
			} else {
				s.Stats.Errors++
				s.LastErr = "solver died: " + err.Error()
			}
			s.Close()
			s.pending.Reset()
			s.start()
			s.Restarts++
			s.fresh = true
			if s.OnRestart != nil {
				s.OnRestart()
			}
			s.Stats.Time += time.Since(t0)
			return Unknown
		}
		switch {
		case line == "sat":
			s.Stats.SatN++
			s.Stats.Time += time.Since(t0)
			return Sat
		case line == "unsat":
			s.Stats.UnsatN++
			s.Stats.Time += time.Since(t0)
			return Unsat
		case line == "unknown" || line == "timeout":
			s.Stats.UnknownN++
			s.Stats.Time += time.Since(t0)
			return Unknown
		case strings.HasPrefix(line, "(error"):
			s.Stats.Errors++
			s.LastErr = line
			// keep reading: a check-sat answer still follows; but verdict is inconclusive
			for {
				l2, err := s.readLine()
				if err != nil || l2 == "sat" || l2 == "unsat" || l2 == "unknown" {
					break
				}
			}
			s.Stats.Time += time.Since(t0)
			return Unknown
		case line == "":
			continue
		default:
			// unexpected chatter (e.g. "success"); ignore
		}
	}
}

// Check decides the current assertion set.
func (s *Solver) Check() Result {
	r := s.checkRaw()
	s.fresh = false
	return r
}

// CheckWith decides assertions ∧ t without keeping t.
func (s *Solver) CheckWith(t *Term) Result {
	if t == False {
		return Unsat
	}
	str := s.define(t)
	s.send("(push 1)\n(assert " + str + ")\n")
	r := s.checkRaw()
	s.pop()
	return r
}

func (s *Solver) pop() {
	if s.fresh {
		s.fresh = false
		return
	}
	s.send("(pop 1)\n")
}

// ModelWith returns a model of assertions ∧ t for the given vars (nil if not sat).
func (s *Solver) ModelWith(t *Term, vars []*Term) (map[string]uint64, Result) {
	str := s.define(t)
	for _, v := range vars {
		s.declareVars(v, map[int]bool{})
	}
	s.send("(push 1)\n(assert " + str + ")\n")
	r := s.checkRaw()
	var m map[string]uint64
	if r == Sat {
		m = s.getValues(vars)
	}
	s.pop()
	return m, r
}

func (s *Solver) getValues(vars []*Term) map[string]uint64 {
	m := map[string]uint64{}
	if len(vars) == 0 {
		return m
	}
	// chunk to keep lines manageable
	for i := 0; i < len(vars); i += 64 {
		j := i + 64
		if j > len(vars) {
			j = len(vars)
		}
		var sb strings.Builder
		sb.WriteString("(get-value (")
		for _, v := range vars[i:j] {
			sb.WriteString(v.Name)
			sb.WriteByte(' ')
		}
		sb.WriteString("))\n")
		s.send(sb.String())
		s.flush()
		txt := s.readSexp()
		if strings.HasPrefix(txt, "(error") {
			s.Stats.Errors++
			s.LastErr = txt
			return nil
		}
		parseValues(txt, m)
	}
	return m
}

// readSexp reads one balanced s-expression from the solver.
func (s *Solver) readSexp() string {
	var sb strings.Builder
	depth := 0
	started := false
	for {
		c, err := s.out.ReadByte()
		if err != nil {
			return sb.String()
		}
		if !started && (c == ' ' || c == '\n' || c == '\r' || c == '\t') {
			continue
		}
		sb.WriteByte(c)
		if c == '(' {
			depth++
			started = true
		} else if c == ')' {
			depth--
			if depth == 0 {
				return sb.String()
			}
		} else if !started {
			// atom
			rest, _ := s.out.ReadString('\n')
			sb.WriteString(rest)
			return strings.TrimSpace(sb.String())
		}
	}
}

type sx struct {
	atom string
	list []*sx
}

func parseSx(s string, i int) (*sx, int) {
	for i < len(s) && (s[i] == ' ' || s[i] == '\n' || s[i] == '\t' || s[i] == '\r') {
		i++
	}
	if i >= len(s) {
		return nil, i
	}
	if s[i] == '(' {
		n := &sx{list: []*sx{}}
		i++
		for {
			for i < len(s) && (s[i] == ' ' || s[i] == '\n' || s[i] == '\t' || s[i] == '\r') {
				i++
			}
			if i >= len(s) {
				return n, i
			}
			if s[i] == ')' {
				return n, i + 1
			}
			var c *sx
			c, i = parseSx(s, i)
			if c == nil {
				return n, i
			}
			n.list = append(n.list, c)
		}
	}
	j := i
	for j < len(s) && s[j] != ' ' && s[j] != ')' && s[j] != '(' && s[j] != '\n' {
		j++
	}
	return &sx{atom: s[i:j]}, j
}

func bvAtom(a string) (uint64, int, bool) {
	if strings.HasPrefix(a, "#x") {
		v, err := strconv.ParseUint(a[2:], 16, 64)
		return v, 4 * (len(a) - 2), err == nil
	}
	if strings.HasPrefix(a, "#b") {
		v, err := strconv.ParseUint(a[2:], 2, 64)
		return v, len(a) - 2, err == nil
	}
	return 0, 0, false
}

func parseValues(txt string, m map[string]uint64) {
	root, _ := parseSx(txt, 0)
	if root == nil {
		return
	}
	for _, p := range root.list {
		if len(p.list) != 2 || p.list[0].atom == "" {
			continue
		}
		name := p.list[0].atom
		v := p.list[1]
		switch {
		case v.atom == "true":
			m[name] = 1
		case v.atom == "false":
			m[name] = 0
		case v.atom != "":
			if x, _, ok := bvAtom(v.atom); ok {
				m[name] = x
			}
		case len(v.list) == 4 && v.list[0].atom == "fp":
			sg, _, _ := bvAtom(v.list[1].atom)
			ex, ew, _ := bvAtom(v.list[2].atom)
			mt, mw, _ := bvAtom(v.list[3].atom)
			m[name] = sg<<uint(ew+mw) | ex<<uint(mw) | mt
		case len(v.list) == 3 && v.list[0].atom == "_":
			// (_ +zero 8 24) (_ -zero ..) (_ +oo ..) (_ -oo ..) (_ NaN ..) or (_ bvN w)
			eb, _ := strconv.Atoi(v.list[1].atom)
			if strings.HasPrefix(v.list[1].atom, "bv") {
				x, _ := strconv.ParseUint(v.list[1].atom[2:], 10, 64)
				m[name] = x
				continue
			}
			sbits := 0
			fmt.Sscanf(v.list[2].atom, "%d", &sbits)
			eb, _ = strconv.Atoi(v.list[1].atom)
			if len(v.list) == 3 {
				// list is (_ kind eb sb)? no: kind is list[1] when len==4
			}
			_ = eb
		case len(v.list) == 4 && v.list[0].atom == "_":
			eb, _ := strconv.Atoi(v.list[2].atom)
			sb, _ := strconv.Atoi(v.list[3].atom)
			mw := sb - 1
			var x uint64
			switch v.list[1].atom {
			case "+zero":
				x = 0
			case "-zero":
				x = 1 << uint(eb+mw)
			case "+oo":
				x = (uint64(1)<<uint(eb) - 1) << uint(mw)
			case "-oo":
				x = 1<<uint(eb+mw) | (uint64(1)<<uint(eb)-1)<<uint(mw)
			case "NaN":
				x = (uint64(1)<<uint(eb)-1)<<uint(mw) | 1<<uint(mw-1)
			}
			m[name] = x
		}
	}
}
