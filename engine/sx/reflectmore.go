package sx

// Less common parts of package reflect (same conventions as reflect.go):
// accessors whose documented panics matter (Bytes), the Can*/Overflow*
// predicates, the scalar setters, type constructors and Copy.

import (
	"go/types"
	"math"
	"reflect"

	"gosx/smt"
)

func init() {
	for k, v := range map[string]externalFn{
		"(reflect.Value).Bytes":         ext۰reflect۰Value۰Bytes,
		"(reflect.Value).CanInt":        reflectKindIn(reflect.Int, reflect.Int8, reflect.Int16, reflect.Int32, reflect.Int64),
		"(reflect.Value).CanUint":       reflectKindIn(reflect.Uint, reflect.Uint8, reflect.Uint16, reflect.Uint32, reflect.Uint64, reflect.Uintptr),
		"(reflect.Value).CanFloat":      reflectKindIn(reflect.Float32, reflect.Float64),
		"(reflect.Value).CanComplex":    reflectKindIn(reflect.Complex64, reflect.Complex128),
		"(reflect.Value).CanConvert":    ext۰reflect۰Value۰CanConvert,
		"(reflect.Value).OverflowInt":   ext۰reflect۰Value۰OverflowInt,
		"(reflect.Value).OverflowUint":  ext۰reflect۰Value۰OverflowUint,
		"(reflect.Value).OverflowFloat": ext۰reflect۰Value۰OverflowFloat,
		"(reflect.Value).SetInt":        reflectSetter("SetInt", types.Int64, reflect.Int, reflect.Int8, reflect.Int16, reflect.Int32, reflect.Int64),
		"(reflect.Value).SetUint":       reflectSetter("SetUint", types.Uint64, reflect.Uint, reflect.Uint8, reflect.Uint16, reflect.Uint32, reflect.Uint64, reflect.Uintptr),
		"(reflect.Value).SetFloat":      reflectSetter("SetFloat", types.Float64, reflect.Float32, reflect.Float64),
		"(reflect.Value).SetBool":       reflectSetter("SetBool", types.Bool, reflect.Bool),
		"(reflect.Value).SetString":     reflectSetter("SetString", types.String, reflect.String),
		"(reflect.Value).SetLen":        ext۰reflect۰Value۰SetLen,
		"(reflect.Value).FieldByIndex":  ext۰reflect۰Value۰FieldByIndex,
		"(reflect.Value).FieldByIndexErr": func(fr *frame, a []value) value {
			v, msg := fieldByIndex(fr, a[0], a[1])
			if msg != "" {
				return tuple{makeReflectValue(nil, nil), errorValue(fr, msg)}
			}
			return tuple{v, iface{}}
		},
		"(reflect.Value).UnsafePointer": ext۰reflect۰Value۰Pointer,
		"(reflect.Value).Complex":       ext۰reflect۰Value۰Complex,
		"reflect.PointerTo":             ext۰reflect۰PointerTo,
		"reflect.PtrTo":                 ext۰reflect۰PointerTo,
		"reflect.MapOf":                 ext۰reflect۰MapOf,
		"reflect.ArrayOf":               ext۰reflect۰ArrayOf,
		"reflect.MakeMapWithSize":       func(fr *frame, a []value) value { return ext۰reflect۰MakeMap(fr, a[:1]) },
		"reflect.Copy":                  ext۰reflect۰Copy,
	} {
		externals[k] = v
	}
}

func reflectKindIn(ks ...reflect.Kind) externalFn {
	return func(fr *frame, args []value) value {
		t := rV2T(args[0]).t
		if t == nil {
			return false
		}
		k := reflectKind(t)
		for _, x := range ks {
			if k == x {
				return true
			}
		}
		return false
	}
}

func ext۰reflect۰Value۰Bytes(fr *frame, args []value) value {
	t := rV2T(args[0]).t
	if t == nil {
		panic(valueErr(fr, "reflect.Value.Bytes", args[0]))
	}
	switch u := t.Underlying().(type) {
	case *types.Slice:
		if reflectKind(u.Elem()) != reflect.Uint8 {
			panic(reflectPanic(fr, "reflect.Value.Bytes of non-byte slice"))
		}
		s, _ := rV2V(args[0]).([]value)
		return s
	case *types.Array:
		if reflectKind(u.Elem()) != reflect.Uint8 {
			panic(reflectPanic(fr, "reflect.Value.Bytes of non-byte array"))
		}
		a := rV2A(args[0])
		if a == nil {
			panic(reflectPanic(fr, "reflect.Value.Bytes of unaddressable byte array"))
		}
		return []value((*a).(array))
	}
	panic(valueErr(fr, "reflect.Value.Bytes", args[0]))
}

func ext۰reflect۰Value۰CanConvert(fr *frame, args []value) value {
	t := rV2T(args[0]).t
	if t == nil {
		panic(valueErr(fr, "reflect.Value.CanConvert", args[0]))
	}
	u := args[1].(iface).v.(rtype).t
	if !types.ConvertibleTo(t, u) {
		return false
	}
	// slice -> array (pointer) additionally needs enough elements
	if st, ok := t.Underlying().(*types.Slice); ok {
		_ = st
		var n int64 = -1
		switch x := u.Underlying().(type) {
		case *types.Array:
			n = x.Len()
		case *types.Pointer:
			if at, ok := x.Elem().Underlying().(*types.Array); ok {
				n = at.Len()
			}
		}
		if s, _ := rV2V(args[0]).([]value); n >= 0 && int64(len(s)) < n {
			return false
		}
	}
	return true
}

func kindBits(fr *frame, method string, v value, ks ...reflect.Kind) int {
	t := rV2T(v).t
	if t == nil {
		panic(valueErr(fr, method, v))
	}
	k := reflectKind(t)
	for _, x := range ks {
		if k == x {
			b, _ := t.Underlying().(*types.Basic)
			return int(fr.i.sizes.Sizeof(b)) * 8
		}
	}
	panic(valueErr(fr, method, v))
}

func ext۰reflect۰Value۰OverflowInt(fr *frame, args []value) value {
	bits := kindBits(fr, "reflect.Value.OverflowInt", args[0], reflect.Int, reflect.Int8, reflect.Int16, reflect.Int32, reflect.Int64)
	sh := uint(64 - bits)
	switch x := args[1].(type) {
	case int64:
		return x != (x<<sh)>>sh
	case *Sym:
		c := smt.BVC(64, uint64(sh))
		return boolVal(smt.Not(smt.Eq(x.T, smt.AShr(smt.Shl(x.T, c), c))))
	}
	panic(engineFault("OverflowInt operand"))
}

func ext۰reflect۰Value۰OverflowUint(fr *frame, args []value) value {
	bits := kindBits(fr, "reflect.Value.OverflowUint", args[0], reflect.Uint, reflect.Uint8, reflect.Uint16, reflect.Uint32, reflect.Uint64, reflect.Uintptr)
	sh := uint(64 - bits)
	switch x := args[1].(type) {
	case uint64:
		return x != (x<<sh)>>sh
	case *Sym:
		c := smt.BVC(64, uint64(sh))
		return boolVal(smt.Not(smt.Eq(x.T, smt.LShr(smt.Shl(x.T, c), c))))
	}
	panic(engineFault("OverflowUint operand"))
}

func ext۰reflect۰Value۰OverflowFloat(fr *frame, args []value) value {
	bits := kindBits(fr, "reflect.Value.OverflowFloat", args[0], reflect.Float32, reflect.Float64)
	if bits == 64 {
		return false
	}
	x, ok := args[1].(float64)
	if !ok {
		panic(abortPath{"inconclusive", "reflect.Value.OverflowFloat of a symbolic float"})
	}
	if x < 0 {
		x = -x
	}
	return math.MaxFloat32 < x && x <= math.MaxFloat64
}

func reflectSetter(name string, arg types.BasicKind, ks ...reflect.Kind) externalFn {
	return func(fr *frame, args []value) value {
		t := rV2T(args[0]).t
		a := rV2A(args[0])
		if rV2F(args[0])&rflagRO != 0 {
			panic(reflectPanic(fr, "reflect: reflect.Value."+name+" using value obtained using unexported field"))
		}
		if t == nil || a == nil {
			panic(reflectPanic(fr, "reflect: reflect.Value."+name+" using unaddressable value"))
		}
		k := reflectKind(t)
		ok := false
		for _, x := range ks {
			ok = ok || k == x
		}
		if !ok {
			panic(valueErr(fr, "reflect.Value."+name, args[0]))
		}
		if fr.i.mon != nil {
			fr.i.mon.onStore2(fr, a, "reflect.Value."+name)
		}
		store(t, a, convS(fr.i, t, types.Typ[arg], args[1]))
		return nil
	}
}

func ext۰reflect۰Value۰SetLen(fr *frame, args []value) value {
	t := rV2T(args[0]).t
	a := rV2A(args[0])
	if t == nil || a == nil || rV2F(args[0])&rflagRO != 0 {
		panic(reflectPanic(fr, "reflect: reflect.Value.SetLen using unaddressable value"))
	}
	s, ok := (*a).([]value)
	if _, isSlice := t.Underlying().(*types.Slice); !isSlice || (!ok && *a != nil) {
		panic(valueErr(fr, "reflect.Value.SetLen", args[0]))
	}
	n := args[1].(int)
	if n < 0 || n > cap(s) {
		panic(reflectPanic(fr, "reflect: slice length out of range in SetLen"))
	}
	if fr.i.mon != nil {
		fr.i.mon.onStore2(fr, a, "reflect.Value.SetLen")
	}
	*a = s[:n]
	return nil
}

func ext۰reflect۰Value۰FieldByIndex(fr *frame, args []value) value {
	v, msg := fieldByIndex(fr, args[0], args[1])
	if msg != "" {
		panic(reflectPanic(fr, "reflect: indirection through nil pointer to embedded struct"))
	}
	return v
}

// fieldByIndex walks nested fields; a nil pointer to an embedded struct on the
// way yields the message FieldByIndex panics with and FieldByIndexErr returns.
func fieldByIndex(fr *frame, v value, index value) (value, string) {
	idx, _ := index.([]value)
	for k, x := range idx {
		if k > 0 {
			if t := rV2T(v).t; t != nil {
				if pt, ok := t.Underlying().(*types.Pointer); ok {
					if st, ok := pt.Elem().Underlying().(*types.Struct); ok {
						_ = st
						if p, _ := rV2V(v).(*value); p == nil {
							name := typeString(pt.Elem())
							if n, ok := pt.Elem().(*types.Named); ok {
								name = n.Obj().Name()
							}
							if k == 1 && len(idx) > 0 {
								return nil, "reflect: indirection through nil pointer to embedded struct field " + name
							}
							return nil, "reflect: indirection through nil pointer to embedded struct field " + name
						}
						v = reflectElem(fr, v)
					}
				}
			}
		}
		v = ext۰reflect۰Value۰Field(fr, []value{v, x})
	}
	return v, ""
}

func ext۰reflect۰Value۰Complex(fr *frame, args []value) value {
	switch x := rV2V(args[0]).(type) {
	case complex64:
		return complex128(x)
	case complex128:
		return x
	}
	panic(valueErr(fr, "reflect.Value.Complex", args[0]))
}

func ext۰reflect۰PointerTo(fr *frame, args []value) value {
	return makeReflectType(rtype{types.NewPointer(args[0].(iface).v.(rtype).t)})
}

func ext۰reflect۰MapOf(fr *frame, args []value) value {
	k := args[0].(iface).v.(rtype).t
	if !types.Comparable(k) {
		panic(reflectPanic(fr, "reflect.MapOf: invalid key type "+typeString(k)))
	}
	return makeReflectType(rtype{types.NewMap(k, args[1].(iface).v.(rtype).t)})
}

func ext۰reflect۰ArrayOf(fr *frame, args []value) value {
	n := args[0].(int)
	if n < 0 {
		panic(reflectPanic(fr, "reflect: negative length passed to ArrayOf"))
	}
	return makeReflectType(rtype{types.NewArray(args[1].(iface).v.(rtype).t, int64(n))})
}

func ext۰reflect۰Copy(fr *frame, args []value) value {
	dt, st := rV2T(args[0]).t, rV2T(args[1]).t
	if dt == nil || st == nil {
		panic(valueErr(fr, "reflect.Copy", args[0]))
	}
	var dst []value
	switch d := dt.Underlying().(type) {
	case *types.Slice:
		dst, _ = rV2V(args[0]).([]value)
	case *types.Array:
		a := rV2A(args[0])
		if a == nil || rV2F(args[0])&rflagRO != 0 {
			panic(reflectPanic(fr, "reflect: reflect.Copy using unaddressable value"))
		}
		dst = []value((*a).(array))
		_ = d
	default:
		panic(valueErr(fr, "reflect.Copy", args[0]))
	}
	var src []value
	switch x := rV2V(args[1]).(type) {
	case []value:
		src = x
	case array:
		src = []value(x)
	case string, *SymStr:
		src = strBytes(x)
	default:
		panic(valueErr(fr, "reflect.Copy", args[1]))
	}
	if fr.i.mon != nil {
		fr.i.mon.onCopy(fr, dst, len(src))
	}
	n := len(src)
	if len(dst) < n {
		n = len(dst)
	}
	for k := 0; k < n; k++ {
		dst[k] = copyVal(src[k])
	}
	return n
}
