package sx

// Environment models: library functions that are not executed from source.
// Each is part of the trusted base and is exercised by the conformance pack.

import (
	"fmt"
	"go/token"
	"go/types"
	"math"
	"reflect"
	"regexp"
	"strconv"
	"strings"
	"unicode/utf8"

	"golang.org/x/tools/go/ssa"

	"gosx/smt"
)

type externalFn func(fr *frame, args []value) value

// Key strings are from Function.String().
var externals = make(map[string]externalFn)

func init() {
	for k, v := range map[string]externalFn{
		"(reflect.Value).Bool":          ext۰reflect۰Value۰Bool,
		"(reflect.Value).CanAddr":       ext۰reflect۰Value۰CanAddr,
		"(reflect.Value).CanInterface":  ext۰reflect۰Value۰CanInterface,
		"(reflect.Value).Cap":           ext۰reflect۰Value۰Cap,
		"(reflect.Value).Convert":       ext۰reflect۰Value۰Convert,
		"(reflect.Value).Elem":          ext۰reflect۰Value۰Elem,
		"(reflect.Value).Field":         ext۰reflect۰Value۰Field,
		"(reflect.Value).Float":         ext۰reflect۰Value۰Float,
		"(reflect.Value).Index":         ext۰reflect۰Value۰Index,
		"(reflect.Value).Int":           ext۰reflect۰Value۰Int,
		"(reflect.Value).Interface":     ext۰reflect۰Value۰Interface,
		"(reflect.Value).IsNil":         ext۰reflect۰Value۰IsNil,
		"(reflect.Value).IsValid":       ext۰reflect۰Value۰IsValid,
		"(reflect.Value).IsZero":        ext۰reflect۰Value۰IsZero,
		"(reflect.Value).Kind":          ext۰reflect۰Value۰Kind,
		"(reflect.Value).Len":           ext۰reflect۰Value۰Len,
		"(reflect.Value).MapIndex":      ext۰reflect۰Value۰MapIndex,
		"(reflect.Value).MapKeys":       ext۰reflect۰Value۰MapKeys,
		"(reflect.Value).FieldByName":   ext۰reflect۰Value۰FieldByName,
		"(reflect.rtype).FieldByName":   ext۰reflect۰rtype۰FieldByName,
		"reflect.DeepEqual":             ext۰reflect۰DeepEqual,
		"(reflect.Value).CanSet":        ext۰reflect۰Value۰CanSet,
		"(reflect.Value).Set":           ext۰reflect۰Value۰Set,
		"(reflect.Value).Addr":          ext۰reflect۰Value۰Addr,
		"(reflect.Value).Comparable":    func(fr *frame, a []value) value { return types.Comparable(rV2T(a[0]).t) },
		"(reflect.Value).Slice":         ext۰reflect۰Value۰Slice,
		"(reflect.Value).MapRange":      ext۰reflect۰Value۰MapRange,
		"(*reflect.MapIter).Next":       ext۰reflect۰MapIter۰Next,
		"(*reflect.MapIter).Key":        ext۰reflect۰MapIter۰Key,
		"(*reflect.MapIter).Value":      ext۰reflect۰MapIter۰Value,
		"(reflect.Value).SetMapIndex":   ext۰reflect۰Value۰SetMapIndex,
		"(reflect.Value).NumField":      ext۰reflect۰Value۰NumField,
		"(reflect.Value).NumMethod":     ext۰reflect۰Value۰NumMethod,
		"(reflect.Value).Pointer":       ext۰reflect۰Value۰Pointer,
		"(reflect.Value).String":        ext۰reflect۰Value۰String,
		"(reflect.Value).Type":          ext۰reflect۰Value۰Type,
		"(reflect.Value).Uint":          ext۰reflect۰Value۰Uint,
		"(reflect.Kind).String":         ext۰reflect۰Kind۰String,
		"(reflect.error).Error":         ext۰reflect۰error۰Error,
		"(reflect.rtype).Bits":          ext۰reflect۰rtype۰Bits,
		"(reflect.rtype).Elem":          ext۰reflect۰rtype۰Elem,
		"(reflect.rtype).Field":         ext۰reflect۰rtype۰Field,
		"(reflect.rtype).Key":           ext۰reflect۰rtype۰Key,
		"(reflect.rtype).Len":           ext۰reflect۰rtype۰Len,
		"(reflect.rtype).Kind":          ext۰reflect۰rtype۰Kind,
		"(reflect.rtype).NumField":      ext۰reflect۰rtype۰NumField,
		"(reflect.rtype).NumMethod":     ext۰reflect۰rtype۰NumMethod,
		"(reflect.rtype).String":        ext۰reflect۰rtype۰String,
		"(reflect.rtype).Name":          ext۰reflect۰rtype۰Name,
		"(reflect.rtype).PkgPath":       ext۰reflect۰rtype۰PkgPath,
		"(reflect.rtype).ConvertibleTo": ext۰reflect۰rtype۰ConvertibleTo,
		"(reflect.rtype).AssignableTo":  ext۰reflect۰rtype۰AssignableTo,
		"(reflect.rtype).Comparable":    ext۰reflect۰rtype۰Comparable,
		"(reflect.rtype).Implements":    ext۰reflect۰rtype۰Implements,
		"reflect.New":                   ext۰reflect۰New,
		"reflect.SliceOf":               ext۰reflect۰SliceOf,
		"reflect.TypeOf":                ext۰reflect۰TypeOf,
		"reflect.ValueOf":               ext۰reflect۰ValueOf,
		"reflect.Zero":                  ext۰reflect۰Zero,
		"reflect.Indirect":              ext۰reflect۰Indirect,
		"reflect.MakeSlice":             ext۰reflect۰MakeSlice,
		"reflect.MakeMap":               ext۰reflect۰MakeMap,
		"reflect.Append":                ext۰reflect۰Append,
		"reflect.AppendSlice":           ext۰reflect۰AppendSlice,
		"(reflect.Value).Slice3":        ext۰reflect۰Value۰Slice3,
		"(reflect.StructTag).Get":       ext۰reflect۰StructTag۰Get,

		"math.Float32bits":     ext۰math۰Float32bits,
		"math.Float32frombits": ext۰math۰Float32frombits,
		"math.Float64bits":     ext۰math۰Float64bits,
		"math.Float64frombits": ext۰math۰Float64frombits,
		"math.Inf":             func(fr *frame, a []value) value { return math.Inf(a[0].(int)) },
		"math.IsNaN":           ext۰math۰IsNaN,
		"math.NaN":             func(fr *frame, a []value) value { return math.NaN() },

		"fmt.Sprintf": ext۰fmt۰Sprintf,
		"fmt.Errorf":  ext۰fmt۰Errorf,
		"fmt.Fprintf": ext۰fmt۰Fprintf,
		"fmt.Sprint":  ext۰fmt۰Sprint,

		"errors.Is": ext۰errors۰Is,

		"strings.Join":       ext۰strings۰Join,
		"strings.Repeat":     ext۰strings۰Repeat,
		"strings.Replace":    ext۰strings۰Replace,
		"strings.ReplaceAll": func(fr *frame, a []value) value { return ext۰strings۰Replace(fr, []value{a[0], a[1], a[2], -1}) },
		"strings.Contains":   ext۰strings۰Contains,
		"strings.Index":      ext۰strings۰Index,
		"strings.IndexByte":  ext۰strings۰IndexByte,
		"strings.ToLower":    func(fr *frame, a []value) value { return strings.ToLower(concStr(a[0], "strings.ToLower")) },
		"strings.TrimSpace":  ext۰strings۰TrimSpace,

		"internal/bytealg.IndexByteString": ext۰strings۰IndexByte,
		"internal/bytealg.IndexByte":       ext۰bytes۰IndexByte,
		"internal/bytealg.IndexString":     ext۰strings۰Index,
		"internal/bytealg.CountString":     ext۰bytealg۰CountString,
		"internal/bytealg.MakeNoZero": func(fr *frame, a []value) value { // strings.Builder.Grow
			n := a[0].(int)
			b := make([]value, n)
			for k := range b {
				b[k] = uint8(0)
			}
			return b
		},
		"internal/stringslite.Clone":       func(fr *frame, a []value) value { return a[0] },
		"strings.Clone":                    func(fr *frame, a []value) value { return a[0] },
		"strconv.cloneString":              func(fr *frame, a []value) value { return a[0] },
		"bytes.Equal":                      ext۰bytes۰Equal,
		"bytes.IndexByte":                  ext۰bytes۰IndexByte,

		"strconv.ParseFloat":  ext۰strconv۰ParseFloat,
		"strconv.FormatFloat": ext۰strconv۰FormatFloat,
		"strconv.Quote":       func(fr *frame, a []value) value { return quoteSym(fr.i, a[0]) },
		// the message of a NumError about symbolic text is never needed
		// byte by byte; quoting it would fork ~12 ways per symbolic byte
		"(*strconv.NumError).Error": func(fr *frame, a []value) value {
			if p, ok := a[0].(*value); ok && p != nil {
				if st, ok := (*p).(structure); ok && len(st) == 3 {
					if _, sym := st[1].(*SymStr); sym {
						return opaqueStr("message of a strconv.NumError about symbolic text")
					}
				}
			}
			return runBody{}
		},

		"unicode/utf8.DecodeRune":         ext۰utf8۰DecodeRune,
		"unicode/utf8.DecodeRuneInString": ext۰utf8۰DecodeRuneInString,
		"unicode/utf8.ValidString":        ext۰utf8۰ValidString,
		"unicode/utf8.EncodeRune":         ext۰utf8۰EncodeRune,
		"unicode/utf8.AppendRune":         ext۰utf8۰AppendRune,
		"unicode.Is":                      ext۰unicode۰Is,

		"regexp.Compile":          ext۰regexp۰Compile,
		"(*regexp.Regexp).Match":  ext۰regexp۰Match,
		"(*regexp.Regexp).String": ext۰regexp۰String,

		"sort.Strings": ext۰sort۰Strings,

		"github.com/mitchellh/mapstructure.WeakDecode": ext۰mapstructure۰WeakDecode,

		"internal/abi.NoEscape":            func(fr *frame, a []value) value { return a[0] },
		"(*strings.Builder).copyCheck":     func(fr *frame, a []value) value { return nil },
		"(*strings.Builder).String":        ext۰strings۰Builder۰String,
		"(*sync.Mutex).Lock":               extSync("Mutex.Lock"),
		"(*sync.Mutex).Unlock":             extSync("Mutex.Unlock"),
		"(*sync.Mutex).TryLock":            func(fr *frame, a []value) value { extSync("Mutex.TryLock")(fr, a); return true },
		"(*sync.RWMutex).Lock":             extSync("RWMutex.Lock"),
		"(*sync.RWMutex).Unlock":           extSync("RWMutex.Unlock"),
		"(*sync.RWMutex).RLock":            extSync("RWMutex.RLock"),
		"(*sync.RWMutex).RUnlock":          extSync("RWMutex.RUnlock"),
		"(*sync.Once).Do":                  ext۰sync۰Once۰Do,
		"(*sync.Map).Load":                 ext۰sync۰Map۰Load,
		"(*sync.Map).Store":                ext۰sync۰Map۰Store,
		"(*sync.Map).LoadOrStore":          ext۰sync۰Map۰LoadOrStore,
		"(*sync.Map).Delete":               ext۰sync۰Map۰Delete,
		"(*sync.Pool).Get":                 ext۰sync۰Pool۰Get,
		"(*sync.Pool).Put":                 ext۰sync۰Pool۰Put,
		"(*sync/atomic.Value).Load":        ext۰atomic۰Value۰Load,
		"(*sync/atomic.Value).Store":       ext۰atomic۰Value۰Store,
		"sort.Slice":                       ext۰sort۰Slice,
		"sort.SliceStable":                 ext۰sort۰Slice,
		"sort.Ints":                        ext۰sort۰Ints,
		"os.Exit": func(fr *frame, a []value) value { panic(abortPath{"inconclusive", "os.Exit"}) },
	} {
		externals[k] = v
	}
}

func concStr(v value, who string) string {
	if s, ok := v.(string); ok {
		return s
	}
	panic(abortPath{"inconclusive", who + " on symbolic string not modelled"})
}

// ---- math

func ext۰math۰Float64frombits(fr *frame, args []value) value {
	if s, ok := args[0].(*Sym); ok {
		return valueOf(smt.FPFromBits(s.T, smt.FP64), types.Float64)
	}
	return math.Float64frombits(args[0].(uint64))
}
func ext۰math۰Float64bits(fr *frame, args []value) value {
	if s, ok := args[0].(*Sym); ok {
		return valueOf(floatBits(fr.i, s.T, 64, smt.FP64), types.Uint64)
	}
	return math.Float64bits(args[0].(float64))
}

// floatBits: the bit pattern of a symbolic float is a fresh bit-vector b with
// to_fp(b) = x (structural equality, so -0 and +0 differ); the same x yields
// the same b on a path. For NaN the payload is unconstrained.
func floatBits(i *interpreter, x *smt.Term, w int, sort smt.Sort) *smt.Term {
	key := "fbits|" + x.String()
	if i.ps.uf == nil {
		i.ps.uf = map[string]*smt.Term{}
	}
	if b, ok := i.ps.uf[key]; ok {
		return b
	}
	b := smt.Var(fmt.Sprintf("uf%d_fbits", len(i.ps.uf)), smt.BV(w))
	i.ps.uf[key] = b
	i.assertPC(smt.Eq(smt.FPFromBits(b, sort), x))
	return b
}
func ext۰math۰Float32frombits(fr *frame, args []value) value {
	if s, ok := args[0].(*Sym); ok {
		return valueOf(smt.FPFromBits(s.T, smt.FP32), types.Float32)
	}
	return math.Float32frombits(args[0].(uint32))
}
func ext۰math۰Float32bits(fr *frame, args []value) value {
	if s, ok := args[0].(*Sym); ok {
		return valueOf(floatBits(fr.i, s.T, 32, smt.FP32), types.Uint32)
	}
	return math.Float32bits(args[0].(float32))
}
func ext۰math۰IsNaN(fr *frame, args []value) value {
	if s, ok := args[0].(*Sym); ok {
		return boolVal(smt.FPIsNaN(s.T))
	}
	return math.IsNaN(args[0].(float64))
}

// ---- bytes / strings

func ext۰bytes۰Equal(fr *frame, args []value) value {
	a := args[0].([]value)
	b := args[1].([]value)
	return boolVal(strEqTerm(mkStr(a), mkStr(b)))
}

// indexByteModel returns the first index of byte c in bs (forking when symbolic).
func indexByteModel(i *interpreter, bs []value, c value) int {
	ct := termOf(c)
	for k, b := range bs {
		if i.decide(smt.Eq(termOf(b), ct), "indexbyte") {
			return k
		}
	}
	return -1
}

func ext۰bytes۰IndexByte(fr *frame, args []value) value {
	return indexByteModel(fr.i, args[0].([]value), args[1])
}

func ext۰strings۰IndexByte(fr *frame, args []value) value {
	return indexByteModel(fr.i, strBytes(args[0]), args[1])
}

func ext۰bytealg۰CountString(fr *frame, args []value) value {
	return strings.Count(concStr(args[0], "bytealg.CountString"), string([]byte{args[1].(byte)}))
}

// indexModel returns the first index of sep in s (forking when symbolic).
func indexModel(i *interpreter, s, sep value) int {
	if a, ok := s.(string); ok {
		if b, ok := sep.(string); ok {
			return strings.Index(a, b)
		}
	}
	sb, pb := strBytes(s), strBytes(sep)
	n, m := len(sb), len(pb)
	for k := 0; k+m <= n; k++ {
		if i.decide(strEqTerm(mkStr(sb[k:k+m]), sep), "strings.Index") {
			return k
		}
	}
	return -1
}

func ext۰strings۰Index(fr *frame, args []value) value {
	return indexModel(fr.i, args[0], args[1])
}

func ext۰strings۰Contains(fr *frame, args []value) value {
	s, sep := args[0], args[1]
	if a, ok := s.(string); ok {
		if b, ok := sep.(string); ok {
			return strings.Contains(a, b)
		}
	}
	sb, pb := strBytes(s), strBytes(sep)
	n, m := len(sb), len(pb)
	var ds []*smt.Term
	for k := 0; k+m <= n; k++ {
		ds = append(ds, strEqTerm(mkStr(sb[k:k+m]), sep))
	}
	return boolVal(smt.Or(ds...))
}

func ext۰strings۰Join(fr *frame, args []value) value {
	elems := args[0].([]value)
	sep := strBytes(args[1])
	var out []value
	for k, e := range elems {
		if k > 0 {
			out = append(out, sep...)
		}
		out = append(out, strBytes(e)...)
	}
	return mkStr(out)
}

func ext۰strings۰Repeat(fr *frame, args []value) value {
	n := fr.i.concInt(args[1], -1, 65, "strings.Repeat count")
	if n < 0 {
		panic(targetPanic{iface{types.Typ[types.String], "strings: negative Repeat count"}})
	}
	b := strBytes(args[0])
	var out []value
	for k := int64(0); k < n; k++ {
		out = append(out, b...)
	}
	return mkStr(out)
}

func ext۰strings۰Replace(fr *frame, args []value) value {
	// func Replace(s, old, new string, n int) string
	s, old, nw := args[0], args[1], args[2]
	n := args[3].(int)
	if a, ok := s.(string); ok {
		if b, ok := old.(string); ok {
			if c, ok := nw.(string); ok {
				return strings.Replace(a, b, c, n)
			}
		}
	}
	sb, ob, nb := strBytes(s), strBytes(old), strBytes(nw)
	if len(ob) == 0 {
		panic(abortPath{"inconclusive", "strings.Replace with empty old on symbolic string"})
	}
	var out []value
	k := 0
	for k < len(sb) {
		if n != 0 && k+len(ob) <= len(sb) && fr.i.decide(strEqTerm(mkStr(sb[k:k+len(ob)]), old), "strings.Replace") {
			out = append(out, nb...)
			k += len(ob)
			if n > 0 {
				n--
			}
			continue
		}
		out = append(out, sb[k])
		k++
	}
	return mkStr(out)
}

// ---- strconv

func errorValue(fr *frame, msg string) value { return iface{errorType, msg} }

func ext۰strconv۰ParseFloat(fr *frame, args []value) value {
	s, ok := args[0].(string)
	if !ok {
		panic(abortPath{"inconclusive", "strconv.ParseFloat on symbolic string (strconv is environment)"})
	}
	bits := args[1].(int)
	f, err := strconv.ParseFloat(s, bits)
	if err == nil {
		return tuple{f, iface{}}
	}
	// build a real *strconv.NumError so errors.Is(err, strconv.ErrSyntax) works
	ne := err.(*strconv.NumError)
	pkg := fr.i.prog.ImportedPackage("strconv")
	var sentinel *ssa.Global
	if ne.Err == strconv.ErrSyntax {
		sentinel = pkg.Var("ErrSyntax")
	} else {
		sentinel = pkg.Var("ErrRange")
	}
	cell := value(structure{ne.Func, ne.Num, *fr.i.globals[sentinel]})
	nt := pkg.Type("NumError").Type()
	return tuple{f, iface{types.NewPointer(nt), &cell}}
}

func ext۰strconv۰FormatFloat(fr *frame, args []value) value {
	if _, ok := args[0].(*Sym); ok {
		panic(abortPath{"inconclusive", "FormatFloat on symbolic float"})
	}
	return strconv.FormatFloat(args[0].(float64), args[1].(byte), args[2].(int), args[3].(int))
}

// quoteModel is strconv.Quote. Symbolic bytes are quoted exactly when they
// are ASCII (decided per byte, forking if unconstrained); a symbolic byte that
// may be >= 0x80 makes the result opaque (multi-byte sequences are not modelled).
func quoteModel(s value) value { panic("use quoteSym") }

func quoteSym(i *interpreter, s value) value {
	if c, ok := s.(string); ok {
		return strconv.Quote(c)
	}
	if isOpaque(s) {
		return s
	}
	bs := strBytes(s)
	// runs of concrete bytes are quoted natively (may contain multi-byte runes)
	out := []value{uint8('"')}
	var run []byte
	flush := func() {
		if len(run) > 0 {
			q := strconv.Quote(string(run))
			for k := 1; k < len(q)-1; k++ {
				out = append(out, q[k])
			}
			run = nil
		}
	}
	c8 := func(v uint64) *smt.Term { return smt.BVC(8, v) }
	for _, b := range bs {
		if c, ok := b.(uint8); ok {
			run = append(run, c)
			continue
		}
		flush()
		t := termOf(b)
		if !i.decide(smt.ULt(t, c8(0x80)), "quote-ascii") {
			return opaqueStr("%q of a symbolic byte >= 0x80")
		}
		switch {
		case i.decide(smt.Eq(t, c8('"')), "quote-dq"):
			out = append(out, uint8('\\'), uint8('"'))
		case i.decide(smt.Eq(t, c8('\\')), "quote-bs"):
			out = append(out, uint8('\\'), uint8('\\'))
		case i.decide(smt.And(smt.ULe(c8(0x20), t), smt.ULe(t, c8(0x7e))), "quote-print"):
			out = append(out, b)
		default:
			esc := byte(0)
			for _, p := range [][2]byte{{7, 'a'}, {8, 'b'}, {12, 'f'}, {10, 'n'}, {13, 'r'}, {9, 't'}, {11, 'v'}} {
				if i.decide(smt.Eq(t, c8(uint64(p[0]))), "quote-esc") {
					esc = p[1]
					break
				}
			}
			if esc != 0 {
				out = append(out, uint8('\\'), esc)
				break
			}
			hex := func(n *smt.Term) value { // 4-bit value in an 8-bit term -> hex digit
				return valueOf(smt.Ite(smt.ULt(n, c8(10)), smt.Add(n, c8('0')), smt.Add(n, c8('a'-10))), types.Uint8)
			}
			out = append(out, uint8('\\'), uint8('x'), hex(smt.LShr(t, c8(4))), hex(smt.BVAnd(t, c8(15))))
		}
	}
	flush()
	out = append(out, uint8('"'))
	return mkStr(out)
}

// ---- utf8 / unicode

func ext۰utf8۰DecodeRune(fr *frame, args []value) value {
	r, n := fr.i.decodeRune(args[0].([]value))
	return tuple{r, n}
}

func ext۰utf8۰DecodeRuneInString(fr *frame, args []value) value {
	r, n := fr.i.decodeRune(strBytes(args[0]))
	return tuple{r, n}
}

func ext۰utf8۰ValidString(fr *frame, args []value) value {
	b := strBytes(args[0])
	for p := 0; p < len(b); {
		r, w := fr.i.decodeRune(b[p:])
		if c, ok := r.(int32); ok && c == runeError && w == 1 {
			return false
		}
		p += w
	}
	return true
}

func ext۰utf8۰AppendRune(fr *frame, args []value) value {
	return append(args[0].([]value), fr.i.encodeRune(args[1])...)
}

func ext۰utf8۰EncodeRune(fr *frame, args []value) value {
	enc := fr.i.encodeRune(args[1])
	p := args[0].([]value)
	if len(p) < len(enc) {
		panic(runtimePanic(fr.i, "index out of range"))
	}
	copy(p, enc)
	return len(enc)
}

// rangeTableTerm builds "r is in table" from the interpreter's copy of a
// *unicode.RangeTable (struct{R16 []Range16; R32 []Range32; LatinOffset int}).
func rangeTableTerm(tab structure, r *smt.Term) *smt.Term {
	var ds []*smt.Term
	add := func(lo, hi, stride uint64) {
		in := smt.And(smt.ULe(smt.BVC(32, lo), r), smt.ULe(r, smt.BVC(32, hi)))
		if stride != 1 {
			in = smt.And(in, smt.Eq(smt.URem(smt.Sub(r, smt.BVC(32, lo)), smt.BVC(32, stride)), smt.BVC(32, 0)))
		}
		ds = append(ds, in)
	}
	for _, e := range tab[0].([]value) {
		s := e.(structure)
		add(uint64(s[0].(uint16)), uint64(s[1].(uint16)), uint64(s[2].(uint16)))
	}
	for _, e := range tab[1].([]value) {
		s := e.(structure)
		add(uint64(s[0].(uint32)), uint64(s[1].(uint32)), uint64(s[2].(uint32)))
	}
	return smt.Or(ds...)
}

func ext۰unicode۰Is(fr *frame, args []value) value {
	tab := (*args[0].(*value)).(structure)
	switch r := args[1].(type) {
	case int32:
		c := rangeTableTerm(tab, smt.BVC(32, uint64(uint32(r))))
		return c == smt.True
	case *Sym:
		return boolVal(rangeTableTerm(tab, r.T))
	}
	panic(engineFault("unicode.Is arg"))
}

// ---- regexp (native for concrete operands)

// nativeRegexp: a compiled pattern (re), or an accepted symbolic pattern (sym).
type nativeRegexp struct {
	re    *regexp.Regexp
	sym   value
	posix bool
}

func (n nativeRegexp) key() string {
	if n.re != nil {
		return n.re.String()
	}
	k := "sym:"
	for _, b := range strBytes(n.sym) {
		k += termOf(b).String() + ","
	}
	return k
}

func ext۰regexp۰Compile(fr *frame, args []value) value {
	pat, ok := args[0].(string)
	if !ok {
		// regexp is environment: whether a symbolic pattern compiles is a free
		// choice (both outcomes are explored); its matches are uninterpreted
		fr.i.ps.usedUF = true
		if fr.i.choose(2, "regexp.Compile-symbolic") == 0 {
			cell := value(nativeRegexp{sym: args[0]})
			return tuple{&cell, iface{}}
		}
		return tuple{(*value)(nil), errorValue(fr, "error parsing regexp: (symbolic pattern)")}
	}
	re, err := regexp.Compile(pat)
	if err != nil {
		return tuple{(*value)(nil), errorValue(fr, err.Error())}
	}
	cell := value(nativeRegexp{re: re})
	return tuple{&cell, iface{}}
}

func ext۰regexp۰Match(fr *frame, args []value) value {
	p := args[0].(*value)
	if p == nil {
		panic(runtimePanic(fr.i, "invalid memory address or nil pointer dereference"))
	}
	nre := (*p).(nativeRegexp)
	re := nre.re
	b, ok := bytesConcrete(args[1].([]value))
	if !ok && re != nil && !fr.i.eng.NoRegexpNFA {
		// concrete pattern, symbolic subject: exact (regexpnfa.go)
		if t, ok := fr.i.reMatchTerm(re.String(), nre.posix, args[1].([]value)); ok {
			return boolVal(t)
		}
	}
	if !ok || re == nil {
		// regexp is environment: the verdict on a symbolic subject is an
		// uninterpreted boolean REm(pattern, subject), the same for the same
		// (pattern, subject) on one path.
		key := nre.key() + "|"
		for _, x := range args[1].([]value) {
			key += termOf(x).String() + ","
		}
		if fr.i.ps.uf == nil {
			fr.i.ps.uf = map[string]*smt.Term{}
		}
		t, ok := fr.i.ps.uf[key]
		if !ok {
			t = smt.Var(fmt.Sprintf("uf%d_REm", len(fr.i.ps.uf)), smt.Bool)
			fr.i.ps.uf[key] = t
			fr.i.ps.usedUF = true
		}
		return boolVal(t)
	}
	return re.Match(b)
}

func ext۰regexp۰String(fr *frame, args []value) value {
	n := (*args[0].(*value)).(nativeRegexp)
	if n.re == nil {
		return n.sym
	}
	return n.re.String()
}

// ---- sort

func ext۰sort۰Strings(fr *frame, args []value) value {
	x := args[0].([]value)
	// insertion sort; symbolic comparisons fork
	for a := 1; a < len(x); a++ {
		for b := a; b > 0; b-- {
			lt := strLtTerm(x[b], x[b-1])
			if !fr.i.decide(lt, "sort.Strings") {
				break
			}
			x[b], x[b-1] = x[b-1], x[b]
		}
	}
	return nil
}

// ---- mapstructure.WeakDecode (only the string -> scalar pairs pointerstructure.coerce needs)

func ext۰mapstructure۰WeakDecode(fr *frame, args []value) value {
	in := args[0].(iface)
	out := args[1].(iface)
	pt, ok := out.t.Underlying().(*types.Pointer)
	if !ok || !isStr(in.v) {
		panic(abortPath{"inconclusive", fmt.Sprintf("mapstructure.WeakDecode %v -> %v not modelled", in.t, out.t)})
	}
	cell := out.v.(*value)
	str := in.v
	if it, isI := pt.Elem().Underlying().(*types.Interface); isI {
		// decodeBasic: the string is stored if it is assignable to the interface type
		if it.NumMethods() == 0 {
			store(pt.Elem(), cell, iface{types.Typ[types.String], str})
			return iface{}
		}
		return errorValue(fr, "1 error(s) decoding:\n\n* '' expected type '"+typeString(pt.Elem())+"', got 'string'")
	}
	tb, ok := pt.Elem().Underlying().(*types.Basic)
	if !ok {
		panic(abortPath{"inconclusive", fmt.Sprintf("mapstructure.WeakDecode string -> %v not modelled", pt.Elem())})
	}
	sc := fr.i.prog.ImportedPackage("strconv")
	k := tb.Kind()
	switch {
	case tb.Info()&types.IsInteger != 0 && tb.Info()&types.IsUnsigned == 0:
		if strLen(str) == 0 {
			str = "0"
		}
		r := callSSA(fr.i, fr, 0, sc.Func("ParseInt"), []value{str, 0, kindWidth(k)}, nil).(tuple)
		if e := r[1].(iface); e.t != nil {
			return errorValue(fr, "cannot parse as int")
		}
		*cell = convScalarTo(r[0], k)
		return iface{}
	case tb.Info()&types.IsInteger != 0:
		if strLen(str) == 0 {
			str = "0"
		}
		r := callSSA(fr.i, fr, 0, sc.Func("ParseUint"), []value{str, 0, kindWidth(k)}, nil).(tuple)
		if e := r[1].(iface); e.t != nil {
			return errorValue(fr, "cannot parse as uint")
		}
		*cell = convScalarTo(r[0], k)
		return iface{}
	case k == types.Bool:
		if strLen(str) == 0 {
			*cell = false
			return iface{}
		}
		r := callSSA(fr.i, fr, 0, sc.Func("ParseBool"), []value{str}, nil).(tuple)
		if e := r[1].(iface); e.t != nil {
			return errorValue(fr, "cannot parse as bool")
		}
		*cell = r[0]
		return iface{}
	case k == types.Float32 || k == types.Float64:
		if strLen(str) == 0 {
			str = "0"
		}
		bits := 64
		if k == types.Float32 {
			bits = 32
		}
		r := ext۰strconv۰ParseFloat(fr, []value{str, bits}).(tuple)
		if e := r[1].(iface); e.t != nil {
			return errorValue(fr, "cannot parse as float")
		}
		*cell = convScalarTo(r[0], k)
		return iface{}
	}
	panic(abortPath{"inconclusive", fmt.Sprintf("mapstructure.WeakDecode string -> %v not modelled", pt.Elem())})
}

// convScalarTo converts a (possibly symbolic) scalar to basic kind k.
func convScalarTo(v value, k types.BasicKind) value {
	if s, ok := v.(*Sym); ok {
		return symConvScalar(s, k)
	}
	sk, _ := scalarKind(v)
	return conv(types.Typ[k], types.Typ[sk], v)
}

// ---- reflect.StructTag.Get (pure string code; run natively on concrete tags)

func ext۰reflect۰StructTag۰Get(fr *frame, args []value) value {
	tag := concStr(args[0], "StructTag.Get")
	key := concStr(args[1], "StructTag.Get key")
	return reflect.StructTag(tag).Get(key)
}

var _ = utf8.RuneError

func ext۰strings۰Builder۰String(fr *frame, args []value) value {
	b := (*args[0].(*value)).(structure)
	buf, _ := b[1].([]value)
	return mkStr(buf)
}

// ---- sync: operations are recorded as synchronisation events (C12) and
// otherwise behave as in a single goroutine.

func extSync(what string) externalFn {
	return func(fr *frame, a []value) value {
		fr.i.ps.events = append(fr.i.ps.events, "sync:"+what)
		switch what {
		case "Mutex.Lock", "Mutex.TryLock", "RWMutex.Lock", "RWMutex.TryLock":
			fr.i.ps.wlock++
		case "Mutex.Unlock", "RWMutex.Unlock":
			if fr.i.ps.wlock > 0 {
				fr.i.ps.wlock--
			}
		}
		return nil
	}
}

func ext۰sync۰Once۰Do(fr *frame, args []value) value {
	fr.i.ps.events = append(fr.i.ps.events, "sync:Once.Do")
	cell := args[0].(*value)
	o := (*cell).(structure) // {done atomic.Uint32 / uint32; m Mutex}
	doneCell := &o[0]
	isDone := false
	switch d := (*doneCell).(type) {
	case structure: // atomic.Uint32{_ noCopy; v uint32}
		isDone = d[len(d)-1].(uint32) != 0
		if !isDone {
			d[len(d)-1] = uint32(1)
		}
	case uint32:
		isDone = d != 0
		if !isDone {
			*doneCell = uint32(1)
		}
	}
	if !isDone {
		if fr.i.mon != nil {
			fr.i.mon.onStore2(fr, cell, "sync.Once")
		}
		fr.i.ps.wlock++ // the body of Do runs once, ordered before every later Do
		defer func() { fr.i.ps.wlock-- }()
		call(fr.i, fr, 0, args[1], nil)
	}
	return nil
}

// sync.Map model: the map lives in a side table keyed by the Map's cell.
func (i *interpreter) syncMap(cell *value) *smap {
	if i.ps.syncMaps == nil {
		i.ps.syncMaps = map[*value]*smap{}
	}
	m, ok := i.ps.syncMaps[cell]
	if !ok {
		m = &smap{kt: types.NewInterfaceType(nil, nil), idx: map[value]int{}}
		i.ps.syncMaps[cell] = m
	}
	return m
}

func ext۰sync۰Map۰Load(fr *frame, args []value) value {
	fr.i.ps.events = append(fr.i.ps.events, "sync:Map.Load")
	v, ok := fr.i.syncMap(args[0].(*value)).lookup(fr.i, args[1])
	if !ok {
		return tuple{iface{}, false}
	}
	return tuple{v, true}
}

func ext۰sync۰Map۰Store(fr *frame, args []value) value {
	fr.i.ps.events = append(fr.i.ps.events, "sync:Map.Store")
	if fr.i.mon != nil {
		fr.i.mon.onStore2(fr, args[0].(*value), "sync.Map")
	}
	fr.i.syncMap(args[0].(*value)).insert(fr.i, args[1], args[2])
	return nil
}

func ext۰sync۰Map۰LoadOrStore(fr *frame, args []value) value {
	fr.i.ps.events = append(fr.i.ps.events, "sync:Map.LoadOrStore")
	m := fr.i.syncMap(args[0].(*value))
	if v, ok := m.lookup(fr.i, args[1]); ok {
		return tuple{v, true}
	}
	if fr.i.mon != nil {
		fr.i.mon.onStore2(fr, args[0].(*value), "sync.Map")
	}
	m.insert(fr.i, args[1], args[2])
	return tuple{args[2], false}
}

func ext۰sync۰Map۰Delete(fr *frame, args []value) value {
	fr.i.ps.events = append(fr.i.ps.events, "sync:Map.Delete")
	if fr.i.mon != nil {
		fr.i.mon.onStore2(fr, args[0].(*value), "sync.Map")
	}
	fr.i.syncMap(args[0].(*value)).delete(fr.i, args[1])
	return nil
}

// sync.Pool: Get may hand back any object Put earlier or a new one; both are
// explored (the most recently Put object first, as the per-P private slot of
// the real pool does on one goroutine).
func ext۰sync۰Pool۰Put(fr *frame, args []value) value {
	fr.i.ps.events = append(fr.i.ps.events, "sync:Pool.Put")
	cell := args[0].(*value)
	if it, ok := args[1].(iface); ok && it.t == nil {
		return nil // Put(nil) is a no-op
	}
	if fr.i.ps.pools == nil {
		fr.i.ps.pools = map[*value][]value{}
	}
	fr.i.ps.pools[cell] = append(fr.i.ps.pools[cell], args[1])
	return nil
}

func ext۰sync۰Pool۰Get(fr *frame, args []value) value {
	fr.i.ps.events = append(fr.i.ps.events, "sync:Pool.Get")
	cell := args[0].(*value)
	if items := fr.i.ps.pools[cell]; len(items) > 0 {
		if fr.i.choose(2, "sync.Pool.Get: reuse or new") == 0 {
			x := items[len(items)-1]
			fr.i.ps.pools[cell] = items[:len(items)-1]
			return x
		}
	}
	p := (*cell).(structure)
	newFn := p[len(p)-1] // New func() any is the last field
	switch f := newFn.(type) {
	case *ssa.Function:
		if f == nil {
			return iface{}
		}
	case nil:
		return iface{}
	}
	return call(fr.i, fr, 0, newFn, nil)
}

func ext۰atomic۰Value۰Load(fr *frame, args []value) value {
	fr.i.ps.events = append(fr.i.ps.events, "sync:atomic.Value.Load")
	v := (*args[0].(*value)).(structure)[0]
	if v == nil {
		return iface{}
	}
	return v
}

func ext۰atomic۰Value۰Store(fr *frame, args []value) value {
	fr.i.ps.events = append(fr.i.ps.events, "sync:atomic.Value.Store")
	if fr.i.mon != nil {
		fr.i.mon.onStore2(fr, args[0].(*value), "atomic.Value")
	}
	(*args[0].(*value)).(structure)[0] = args[1]
	return nil
}

func ext۰sort۰Slice(fr *frame, args []value) value {
	x := args[0].(iface).v.([]value)
	less := args[1]
	for a := 1; a < len(x); a++ {
		for b := a; b > 0; b-- {
			r := call(fr.i, fr, 0, less, []value{b, b - 1})
			lt := false
			switch r := r.(type) {
			case bool:
				lt = r
			case *Sym:
				lt = fr.i.decide(r.T, "sort.Slice")
			}
			if !lt {
				break
			}
			x[b], x[b-1] = x[b-1], x[b]
		}
	}
	return nil
}

func ext۰sort۰Ints(fr *frame, args []value) value {
	x := args[0].([]value)
	for a := 1; a < len(x); a++ {
		for b := a; b > 0; b-- {
			r := binopS(fr.i, token.LSS, nil, x[b], x[b-1])
			lt := false
			switch r := r.(type) {
			case bool:
				lt = r
			case *Sym:
				lt = fr.i.decide(r.T, "sort.Ints")
			}
			if !lt {
				break
			}
			x[b], x[b-1] = x[b-1], x[b]
		}
	}
	return nil
}

// unicode.IsSpace as a term over a 32-bit rune.
func isSpaceTerm(r *smt.Term) *smt.Term {
	c := func(v uint64) *smt.Term { return smt.BVC(32, v) }
	rng := func(lo, hi uint64) *smt.Term { return smt.And(smt.ULe(c(lo), r), smt.ULe(r, c(hi))) }
	return smt.Or(rng(9, 13), smt.Eq(r, c(0x20)), smt.Eq(r, c(0x85)), smt.Eq(r, c(0xA0)), smt.Eq(r, c(0x1680)),
		rng(0x2000, 0x200a), smt.Eq(r, c(0x2028)), smt.Eq(r, c(0x2029)), smt.Eq(r, c(0x202f)), smt.Eq(r, c(0x205f)), smt.Eq(r, c(0x3000)))
}

func ext۰strings۰TrimSpace(fr *frame, args []value) value {
	if s, ok := args[0].(string); ok {
		return strings.TrimSpace(s)
	}
	b := strBytes(args[0])
	start := 0
	for start < len(b) {
		r, w := fr.i.decodeRune(b[start:])
		t := termOf(r)
		if w == 1 {
			if c, ok := r.(int32); ok && c == runeError {
				break // ill-formed byte: not a space
			}
		}
		if !fr.i.decide(isSpaceTerm(t), "TrimSpace-lead") {
			break
		}
		start += w
	}
	end := len(b)
	for end > start {
		// last rune: scan back to a rune start (at most 4 bytes)
		k := end - 1
		for k > start && end-k < 4 {
			if c, ok := b[k].(uint8); ok && (c&0xC0) != 0x80 {
				break
			}
			if _, ok := b[k].(uint8); !ok && !fr.i.decide(smt.Eq(smt.BVAnd(termOf(b[k]), smt.BVC(8, 0xC0)), smt.BVC(8, 0x80)), "TrimSpace-cont") {
				break
			}
			k--
		}
		r, w := fr.i.decodeRune(b[k:end])
		if k+w != end {
			// the tail is not one well-formed rune: only its last byte is considered
			k = end - 1
			r, w = fr.i.decodeRune(b[k:end])
		}
		if c, ok := r.(int32); ok && c == runeError && w == 1 {
			break
		}
		if !fr.i.decide(isSpaceTerm(termOf(r)), "TrimSpace-trail") {
			break
		}
		end = k
	}
	return mkStr(b[start:end])
}

// ---- sync/atomic integers (single-goroutine semantics, recorded as sync events)

func atomicCell(args []value) *value {
	p := args[0].(*value)
	if s, ok := (*p).(structure); ok {
		return &s[len(s)-1]
	}
	return p
}

func init() {
	for _, t := range []string{"Int32", "Int64", "Uint32", "Uint64", "Uintptr", "Bool"} {
		T := "(*sync/atomic." + t + ")."
		externals[T+"Load"] = func(fr *frame, a []value) value {
			fr.i.ps.events = append(fr.i.ps.events, "sync:atomic.Load")
			return *atomicCell(a)
		}
		externals[T+"Store"] = func(fr *frame, a []value) value {
			fr.i.ps.events = append(fr.i.ps.events, "sync:atomic.Store")
			if fr.i.mon != nil {
				fr.i.mon.onStore2(fr, a[0].(*value), "atomic")
			}
			*atomicCell(a) = a[1]
			return nil
		}
		externals[T+"Add"] = func(fr *frame, a []value) value {
			fr.i.ps.events = append(fr.i.ps.events, "sync:atomic.Add")
			if fr.i.mon != nil {
				fr.i.mon.onStore2(fr, a[0].(*value), "atomic")
			}
			c := atomicCell(a)
			*c = binopS(fr.i, token.ADD, nil, *c, a[1])
			return *c
		}
		externals[T+"Swap"] = func(fr *frame, a []value) value {
			fr.i.ps.events = append(fr.i.ps.events, "sync:atomic.Swap")
			if fr.i.mon != nil {
				fr.i.mon.onStore2(fr, a[0].(*value), "atomic")
			}
			c := atomicCell(a)
			old := *c
			*c = a[1]
			return old
		}
		externals[T+"CompareAndSwap"] = func(fr *frame, a []value) value {
			fr.i.ps.events = append(fr.i.ps.events, "sync:atomic.CompareAndSwap")
			c := atomicCell(a)
			eq := equalsT(nil, *c, a[1])
			if fr.i.decide(eq, "atomic.CAS") {
				if fr.i.mon != nil {
					fr.i.mon.onStore2(fr, a[0].(*value), "atomic")
				}
				*c = a[2]
				return true
			}
			return false
		}
	}
	for _, t := range []string{"Int32", "Int64", "Uint32", "Uint64", "Uintptr"} {
		externals["sync/atomic.Load"+t] = externals["(*sync/atomic."+t+").Load"]
		externals["sync/atomic.Store"+t] = externals["(*sync/atomic."+t+").Store"]
		externals["sync/atomic.Add"+t] = externals["(*sync/atomic."+t+").Add"]
		externals["sync/atomic.Swap"+t] = externals["(*sync/atomic."+t+").Swap"]
		externals["sync/atomic.CompareAndSwap"+t] = externals["(*sync/atomic."+t+").CompareAndSwap"]
	}
}
