package sx

// Insertion-ordered association-list maps whose keys may be symbolic.
// Lookup with a symbolic key (or against symbolic keys) forks on key equality.

import (
	"fmt"
	"go/types"

	"golang.org/x/tools/go/ssa"

	"gosx/smt"
)

type smap struct {
	kt   types.Type
	keys []value
	vals []value
	idx  map[value]int // concrete Go-hashable keys -> position
	nsym int           // number of keys that are symbolic / not indexable
}

func makeMap(kt types.Type, reserve int64) value {
	return &smap{kt: kt, idx: map[value]int{}}
}

// indexable reports whether k can be used as a Go map key directly with Go's
// == coinciding with the target language's ==.
func indexable(k value) bool {
	switch k.(type) {
	case bool, int, int8, int16, int32, int64, uint, uint8, uint16, uint32, uint64, uintptr, string, *value:
		return true
	}
	return false
}

func (m *smap) len() int {
	if m == nil {
		return 0
	}
	return len(m.keys)
}

// find returns the position of k, or -1. May fork.
func (m *smap) find(i *interpreter, k value) int {
	if m == nil {
		return -1
	}
	if indexable(k) && m.nsym == 0 {
		if p, ok := m.idx[k]; ok {
			return p
		}
		return -1
	}
	if ifc, ok := k.(iface); ok && ifc.t != nil && ifc.t != types.Type(rtypeType) && ifc.t != types.Type(errorType) && !types.Comparable(ifc.t) {
		panic(runtimePanic(i, "runtime error: hash of unhashable type "+ifc.t.String()))
	}
	for p, mk := range m.keys {
		c := equalsT(m.kt, mk, k)
		if c == smt.False {
			continue
		}
		if c == smt.True {
			return p
		}
		if i.decide(c, "map-key") {
			return p
		}
	}
	return -1
}

func (m *smap) lookup(i *interpreter, k value) (value, bool) {
	p := m.find(i, k)
	if p < 0 {
		return nil, false
	}
	return m.vals[p], true
}

func (m *smap) insert(i *interpreter, k, v value) {
	if m == nil {
		panic(runtimePanic(i, "assignment to entry in nil map"))
	}
	p := m.find(i, k)
	if p >= 0 {
		m.vals[p] = v
		return
	}
	m.keys = append(m.keys, k)
	m.vals = append(m.vals, v)
	if indexable(k) {
		m.idx[k] = len(m.keys) - 1
	} else {
		m.nsym++
	}
}

func (m *smap) delete(i *interpreter, k value) {
	p := m.find(i, k)
	if p < 0 {
		return
	}
	m.keys = append(m.keys[:p:p], m.keys[p+1:]...)
	m.vals = append(m.vals[:p:p], m.vals[p+1:]...)
	m.idx = map[value]int{}
	m.nsym = 0
	for q, mk := range m.keys {
		if indexable(mk) {
			m.idx[mk] = q
		} else {
			m.nsym++
		}
	}
}

// order returns the iteration order of the map: insertion order, or — when
// the interpreter models Go's randomised order — a nondeterministically chosen
// permutation.
func (m *smap) order(i *interpreter, site *ssa.Function) []int {
	n := m.len()
	ord := make([]int, n)
	for k := range ord {
		ord[k] = k
	}
	if i.symMapOrder == 0 || n < 2 {
		return ord
	}
	if i.symMapOrder == 1 && (site == nil || pkgPathOf(site) != subjectPkgs[0]) {
		return ord
	}
	if n > 5 {
		panic(abortPath{"inconclusive", fmt.Sprintf("symbolic map order over %d entries", n)})
	}
	// Fisher-Yates driven by choose: n! leaves
	for k := 0; k < n-1; k++ {
		j := k + i.choose(n-k, "map-order")
		ord[k], ord[j] = ord[j], ord[k]
	}
	i.ps.events = append(i.ps.events, fmt.Sprintf("maporder%v", ord))
	return ord
}

type smapIter struct {
	m   *smap
	ord []int
	pos int
}

func (it *smapIter) next() tuple {
	if it.pos >= len(it.ord) {
		return []value{false, nil, nil}
	}
	p := it.ord[it.pos]
	it.pos++
	return []value{true, it.m.keys[p], it.m.vals[p]}
}
