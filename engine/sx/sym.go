package sx

// Symbolic scalar and string values, and the symbolic versions of the
// arithmetic / comparison / conversion operators.

import (
	"fmt"
	"go/token"
	"go/types"
	"math"

	"gosx/smt"
)

// Sym is a symbolic scalar (bool, intN, uintN, uintptr, float32/64).
type Sym struct {
	T *smt.Term
	K types.BasicKind
}

// SymStr is a string with at least one symbolic byte. Each element is a
// uint8 or a *Sym of kind Uint8. Length is concrete.
type SymStr struct {
	B      []value
	Opaque bool   // content not computed by the model (see fmtmodel.go)
	Why    string // reason for opacity
}

func kindWidth(k types.BasicKind) int {
	switch k {
	case types.Int8, types.Uint8:
		return 8
	case types.Int16, types.Uint16:
		return 16
	case types.Int32, types.Uint32:
		return 32
	case types.Int, types.Uint, types.Int64, types.Uint64, types.Uintptr:
		return 64
	}
	panic(engineFault(fmt.Sprintf("kindWidth(%v)", k)))
}

func kindSigned(k types.BasicKind) bool {
	switch k {
	case types.Int, types.Int8, types.Int16, types.Int32, types.Int64:
		return true
	}
	return false
}

func kindIsInt(k types.BasicKind) bool {
	switch k {
	case types.Int, types.Int8, types.Int16, types.Int32, types.Int64,
		types.Uint, types.Uint8, types.Uint16, types.Uint32, types.Uint64, types.Uintptr:
		return true
	}
	return false
}

func kindSort(k types.BasicKind) smt.Sort {
	switch k {
	case types.Bool:
		return smt.Bool
	case types.Float32:
		return smt.FP32
	case types.Float64:
		return smt.FP64
	}
	return smt.BV(kindWidth(k))
}

// scalarKind reports the basic kind of a concrete or symbolic scalar value.
func scalarKind(v value) (types.BasicKind, bool) {
	switch v := v.(type) {
	case *Sym:
		return v.K, true
	case bool:
		return types.Bool, true
	case int:
		return types.Int, true
	case int8:
		return types.Int8, true
	case int16:
		return types.Int16, true
	case int32:
		return types.Int32, true
	case int64:
		return types.Int64, true
	case uint:
		return types.Uint, true
	case uint8:
		return types.Uint8, true
	case uint16:
		return types.Uint16, true
	case uint32:
		return types.Uint32, true
	case uint64:
		return types.Uint64, true
	case uintptr:
		return types.Uintptr, true
	case float32:
		return types.Float32, true
	case float64:
		return types.Float64, true
	}
	return 0, false
}

// termOf converts a scalar value into a term.
func termOf(v value) *smt.Term {
	switch v := v.(type) {
	case *Sym:
		return v.T
	case bool:
		return smt.BoolC(v)
	case int:
		return smt.BVC(64, uint64(v))
	case int8:
		return smt.BVC(8, uint64(v))
	case int16:
		return smt.BVC(16, uint64(v))
	case int32:
		return smt.BVC(32, uint64(v))
	case int64:
		return smt.BVC(64, uint64(v))
	case uint:
		return smt.BVC(64, uint64(v))
	case uint8:
		return smt.BVC(8, uint64(v))
	case uint16:
		return smt.BVC(16, uint64(v))
	case uint32:
		return smt.BVC(32, uint64(v))
	case uint64:
		return smt.BVC(64, v)
	case uintptr:
		return smt.BVC(64, uint64(v))
	case float32:
		return smt.FPC32(v)
	case float64:
		return smt.FPC64(v)
	}
	panic(engineFault(fmt.Sprintf("termOf(%T)", v)))
}

// concreteOf builds the concrete Go value of kind k from constant bits.
func concreteOf(k types.BasicKind, c uint64) value {
	switch k {
	case types.Bool:
		return c != 0
	case types.Int:
		return int(int64(c))
	case types.Int8:
		return int8(c)
	case types.Int16:
		return int16(c)
	case types.Int32:
		return int32(c)
	case types.Int64:
		return int64(c)
	case types.Uint:
		return uint(c)
	case types.Uint8:
		return uint8(c)
	case types.Uint16:
		return uint16(c)
	case types.Uint32:
		return uint32(c)
	case types.Uint64:
		return c
	case types.Uintptr:
		return uintptr(c)
	case types.Float32:
		return math.Float32frombits(uint32(c))
	case types.Float64:
		return math.Float64frombits(c)
	}
	panic(engineFault(fmt.Sprintf("concreteOf(%v)", k)))
}

// valueOf wraps a term of kind k as a value (concrete if constant).
func valueOf(t *smt.Term, k types.BasicKind) value {
	if t.IsConst() {
		return concreteOf(k, t.C)
	}
	return &Sym{T: t, K: k}
}

func isSym(v value) bool {
	switch v.(type) {
	case *Sym, *SymStr:
		return true
	}
	return false
}

// ---- strings

// strBytes returns the bytes of a string value (concrete or symbolic).
func strBytes(v value) []value {
	switch v := v.(type) {
	case string:
		b := make([]value, len(v))
		for i := 0; i < len(v); i++ {
			b[i] = v[i]
		}
		return b
	case *SymStr:
		if v.Opaque {
			panic(abortPath{"inconclusive", "opaque string inspected: " + v.Why})
		}
		return v.B
	}
	panic(engineFault(fmt.Sprintf("strBytes(%T)", v)))
}

func isStr(v value) bool {
	switch v.(type) {
	case string, *SymStr:
		return true
	}
	return false
}

func strLen(v value) int {
	switch v := v.(type) {
	case string:
		return len(v)
	case *SymStr:
		if v.Opaque {
			panic(abortPath{"inconclusive", "opaque string length inspected: " + v.Why})
		}
		return len(v.B)
	}
	panic(engineFault(fmt.Sprintf("strLen(%T)", v)))
}

// mkStr builds a string value from bytes, normalising to a Go string when
// every byte is concrete. The slice is copied.
func mkStr(b []value) value {
	conc := true
	for _, x := range b {
		if _, ok := x.(uint8); !ok {
			conc = false
			break
		}
	}
	if conc {
		bs := make([]byte, len(b))
		for i, x := range b {
			bs[i] = x.(uint8)
		}
		return string(bs)
	}
	c := make([]value, len(b))
	copy(c, b)
	return &SymStr{B: c}
}

// strEqTerm is the equality of two string values as a term.
func strEqTerm(x, y value) *smt.Term {
	if xs, ok := x.(string); ok {
		if ys, ok := y.(string); ok {
			return smt.BoolC(xs == ys)
		}
	}
	if strLen(x) != strLen(y) {
		return smt.False
	}
	xb, yb := strBytes(x), strBytes(y)
	cs := make([]*smt.Term, 0, len(xb))
	for i := range xb {
		c := smt.Eq(termOf(xb[i]), termOf(yb[i]))
		if c == smt.False {
			return smt.False
		}
		cs = append(cs, c)
	}
	return smt.And(cs...)
}

// strLtTerm is lexicographic x < y.
func strLtTerm(x, y value) *smt.Term {
	xb, yb := strBytes(x), strBytes(y)
	// build from the end
	n := len(xb)
	if len(yb) < n {
		n = len(yb)
	}
	res := smt.BoolC(len(xb) < len(yb))
	for i := n - 1; i >= 0; i-- {
		a, b := termOf(xb[i]), termOf(yb[i])
		res = smt.Ite(smt.ULt(a, b), smt.True, smt.Ite(smt.Eq(a, b), res, smt.False))
	}
	return res
}

// ---- operators

func boolVal(t *smt.Term) value { return valueOf(t, types.Bool) }

// symBinop implements binop when at least one operand is symbolic.
// Division by a symbolic zero is decided by the caller's interpreter.
func symBinop(i *interpreter, op token.Token, t types.Type, x, y value) value {
	// strings
	if isStr(x) && isStr(y) {
		switch op {
		case token.ADD:
			return strCat(x, y)
		case token.EQL:
			return boolVal(strEqTerm(x, y))
		case token.NEQ:
			return boolVal(smt.Not(strEqTerm(x, y)))
		case token.LSS:
			return boolVal(strLtTerm(x, y))
		case token.GTR:
			return boolVal(strLtTerm(y, x))
		case token.LEQ:
			return boolVal(smt.Not(strLtTerm(y, x)))
		case token.GEQ:
			return boolVal(smt.Not(strLtTerm(x, y)))
		}
		panic(engineFault(fmt.Sprintf("symBinop string %s", op)))
	}
	kx, okx := scalarKind(x)
	ky, oky := scalarKind(y)
	if !okx || !oky {
		// aggregate comparison
		switch op {
		case token.EQL:
			return boolVal(equalsT(t, x, y))
		case token.NEQ:
			return boolVal(smt.Not(equalsT(t, x, y)))
		}
		panic(engineFault(fmt.Sprintf("symBinop %T %s %T", x, op, y)))
	}
	a, b := termOf(x), termOf(y)
	switch kx {
	case types.Bool:
		switch op {
		case token.EQL:
			return boolVal(smt.Eq(a, b))
		case token.NEQ:
			return boolVal(smt.Not(smt.Eq(a, b)))
		case token.AND, token.LAND:
			return boolVal(smt.And(a, b))
		case token.OR, token.LOR:
			return boolVal(smt.Or(a, b))
		}
	case types.Float32, types.Float64:
		switch op {
		case token.EQL:
			return boolVal(smt.FPEq(a, b))
		case token.NEQ:
			return boolVal(smt.Not(smt.FPEq(a, b)))
		case token.LSS:
			return boolVal(smt.FPLt(a, b))
		case token.LEQ:
			return boolVal(smt.FPLe(a, b))
		case token.GTR:
			return boolVal(smt.FPLt(b, a))
		case token.GEQ:
			return boolVal(smt.FPLe(b, a))
		case token.ADD:
			return valueOf(smt.FPArith("fp.add", a, b), kx)
		case token.SUB:
			return valueOf(smt.FPArith("fp.sub", a, b), kx)
		case token.MUL:
			return valueOf(smt.FPArith("fp.mul", a, b), kx)
		case token.QUO:
			return valueOf(smt.FPArith("fp.div", a, b), kx)
		}
	default:
		sg := kindSigned(kx)
		w := kindWidth(kx)
		if op == token.SHL || op == token.SHR {
			// shift count may have a different width
			wy := kindWidth(ky)
			var cnt *smt.Term
			var big *smt.Term // count >= w
			if wy > w {
				big = smt.Not(smt.ULt(b, smt.BVC(wy, uint64(w))))
				cnt = smt.Extract(w-1, 0, b)
			} else {
				cnt = smt.ZeroExt(w-wy, b)
				big = smt.Not(smt.ULt(cnt, smt.BVC(w, uint64(w))))
			}
			var r *smt.Term
			if op == token.SHL {
				r = smt.Ite(big, smt.BVC(w, 0), smt.Shl(a, cnt))
			} else if sg {
				r = smt.Ite(big, smt.AShr(a, smt.BVC(w, uint64(w-1))), smt.AShr(a, cnt))
			} else {
				r = smt.Ite(big, smt.BVC(w, 0), smt.LShr(a, cnt))
			}
			return valueOf(r, kx)
		}
		if kx != ky {
			panic(engineFault(fmt.Sprintf("symBinop kind mismatch %v %s %v", kx, op, ky)))
		}
		switch op {
		case token.ADD:
			return valueOf(smt.Add(a, b), kx)
		case token.SUB:
			return valueOf(smt.Sub(a, b), kx)
		case token.MUL:
			return valueOf(smt.Mul(a, b), kx)
		case token.QUO, token.REM:
			if !b.IsConst() {
				if i.decide(smt.Eq(b, smt.BVC(w, 0)), "div-by-zero") {
					panic(runtimePanic(i, "integer divide by zero"))
				}
			} else if b.C == 0 {
				panic(runtimePanic(i, "integer divide by zero"))
			}
			switch {
			case op == token.QUO && sg:
				return valueOf(smt.SDiv(a, b), kx)
			case op == token.QUO:
				return valueOf(smt.UDiv(a, b), kx)
			case sg:
				return valueOf(smt.SRem(a, b), kx)
			default:
				return valueOf(smt.URem(a, b), kx)
			}
		case token.AND:
			return valueOf(smt.BVAnd(a, b), kx)
		case token.OR:
			return valueOf(smt.BVOr(a, b), kx)
		case token.XOR:
			return valueOf(smt.BVXor(a, b), kx)
		case token.AND_NOT:
			return valueOf(smt.BVAnd(a, smt.BVNot(b)), kx)
		case token.EQL:
			return boolVal(smt.Eq(a, b))
		case token.NEQ:
			return boolVal(smt.Not(smt.Eq(a, b)))
		case token.LSS:
			if sg {
				return boolVal(smt.SLt(a, b))
			}
			return boolVal(smt.ULt(a, b))
		case token.LEQ:
			if sg {
				return boolVal(smt.SLe(a, b))
			}
			return boolVal(smt.ULe(a, b))
		case token.GTR:
			if sg {
				return boolVal(smt.SLt(b, a))
			}
			return boolVal(smt.ULt(b, a))
		case token.GEQ:
			if sg {
				return boolVal(smt.SLe(b, a))
			}
			return boolVal(smt.ULe(b, a))
		}
	}
	panic(engineFault(fmt.Sprintf("symBinop: %T %s %T", x, op, y)))
}

func symUnop(op token.Token, x *Sym) value {
	switch op {
	case token.NOT:
		return boolVal(smt.Not(x.T))
	case token.SUB:
		if x.K == types.Float32 || x.K == types.Float64 {
			return valueOf(smt.FPNeg(x.T), x.K)
		}
		return valueOf(smt.Neg(x.T), x.K)
	case token.XOR:
		return valueOf(smt.BVNot(x.T), x.K)
	}
	panic(engineFault(fmt.Sprintf("symUnop %s", op)))
}

// symConvScalar converts a symbolic scalar to basic kind kd.
func symConvScalar(x *Sym, kd types.BasicKind) value {
	ks := x.K
	switch {
	case kindIsInt(ks) && kindIsInt(kd):
		return valueOf(smt.Resize(x.T, kindWidth(kd), kindSigned(ks)), kd)
	case kindIsInt(ks) && (kd == types.Float32 || kd == types.Float64):
		return valueOf(smt.FPFromBV(x.T, kindSigned(ks), kindSort(kd)), kd)
	case (ks == types.Float32 || ks == types.Float64) && (kd == types.Float32 || kd == types.Float64):
		return valueOf(smt.FPToFP(x.T, kindSort(kd)), kd)
	case (ks == types.Float32 || ks == types.Float64) && kindIsInt(kd):
		return valueOf(smt.FPToBV(x.T, kindSigned(kd), kindWidth(kd)), kd)
	case ks == types.Bool && kd == types.Bool:
		return x
	}
	panic(engineFault(fmt.Sprintf("symConvScalar %v -> %v", ks, kd)))
}

// equalsT is Go's == on values of static type t, as a term.
func equalsT(t types.Type, x, y value) *smt.Term {
	if isStr(x) && isStr(y) {
		return strEqTerm(x, y)
	}
	if _, ok := scalarKind(x); ok {
		if _, ok := scalarKind(y); ok {
			if !isSym(x) && !isSym(y) {
				return smt.BoolC(equals(t, x, y))
			}
			a, b := termOf(x), termOf(y)
			if a.S.K == smt.SFP32 || a.S.K == smt.SFP64 {
				return smt.FPEq(a, b)
			}
			return smt.Eq(a, b)
		}
	}
	switch x := x.(type) {
	case structure:
		y := y.(structure)
		if n, ok := t.(*types.Named); ok && isReflectValueType(n) {
			return reflectValueEq(x, y)
		}
		if len(x) != len(y) {
			return smt.False
		}
		var tStruct *types.Struct
		if t != nil {
			tStruct, _ = t.Underlying().(*types.Struct)
		}
		cs := []*smt.Term{}
		for i := range x {
			var ft types.Type
			if tStruct != nil && i < tStruct.NumFields() {
				f := tStruct.Field(i)
				if f.Name() == "_" {
					continue
				}
				ft = f.Type()
			}
			c := equalsT(ft, x[i], y[i])
			if c == smt.False {
				return smt.False
			}
			cs = append(cs, c)
		}
		return smt.And(cs...)
	case array:
		y := y.(array)
		var et types.Type
		if t != nil {
			et = t.Underlying().(*types.Array).Elem()
		}
		cs := []*smt.Term{}
		for i := range x {
			c := equalsT(et, x[i], y[i])
			if c == smt.False {
				return smt.False
			}
			cs = append(cs, c)
		}
		return smt.And(cs...)
	case iface:
		y, ok := y.(iface)
		if !ok {
			return smt.False
		}
		if !sameType(x.t, y.t) {
			return smt.False
		}
		if x.t == nil {
			return smt.True
		}
		if x.t == rtypeType {
			return smt.BoolC(types.Identical(x.v.(rtype).t, y.v.(rtype).t))
		}
		if x.t == errorType {
			return smt.BoolC(x.v == y.v)
		}
		if !types.Comparable(x.t) {
			panic(runtimePanicG("runtime error: comparing uncomparable type " + x.t.String()))
		}
		return equalsT(x.t, x.v, y.v)
	}
	return smt.BoolC(equals(t, x, y))
}
