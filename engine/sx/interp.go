// Copyright 2013 The Go Authors. All rights reserved.
// Use of this source code is governed by a BSD-style
// license that can be found in the LICENSE file.

// Package ssa/interp defines an interpreter for the SSA
// representation of Go programs.
//
// This interpreter is provided as an adjunct for testing the SSA
// construction algorithm.  Its purpose is to provide a minimal
// metacircular implementation of the dynamic semantics of each SSA
// instruction.  It is not, and will never be, a production-quality Go
// interpreter.
//
// The following is a partial list of Go features that are currently
// unsupported or incomplete in the interpreter.
//
// * Unsafe operations, including all uses of unsafe.Pointer, are
// impossible to support given the "boxed" value representation we
// have chosen.
//
// * The reflect package is only partially implemented.
//
// * The "testing" package is no longer supported because it
// depends on low-level details that change too often.
//
// * "sync/atomic" operations are not atomic due to the "boxed" value
// representation: it is not possible to read, modify and write an
// interface value atomically. As a consequence, Mutexes are currently
// broken.
//
// * recover is only partially implemented.  Also, the interpreter
// makes no attempt to distinguish target panics from interpreter
// crashes.
//
// * the sizes of the int, uint and uintptr types in the target
// program are assumed to be the same as those of the interpreter
// itself.
//
// * all values occupy space, even those of types defined by the spec
// to have zero size, e.g. struct{}.  This can cause asymptotic
// performance degradation.
//
// * os.Exit is implemented using panic, causing deferred functions to
// run.
package sx

import (
	"time"
	"fmt"
	"go/token"
	"go/types"
	"os"
	"runtime"
	"slices"
	"strings"
	_ "unsafe"

	"golang.org/x/tools/go/ssa"

	"gosx/smt"
)

type continuation int

const (
	kNext continuation = iota
	kReturn
	kJump
)

// Mode is a bitmask of options affecting the interpreter.
type Mode uint

const (
	DisableRecover Mode = 1 << iota // Disable recover() in target programs; show interpreter crash instead.
	EnableTracing                   // Print a trace of all instructions as they are interpreted.
)

type methodSet map[string]*ssa.Function

// State shared between all interpreted goroutines.
type interpreter struct {
	osArgs             []value                // the value of os.Args
	prog               *ssa.Program           // the SSA program
	globals            map[*ssa.Global]*value // addresses of global variables (immutable)
	mode               Mode                   // interpreter options
	reflectPackage     *ssa.Package           // the fake reflect package
	errorMethods       methodSet              // the method set of reflect.error, which implements the error interface.
	rtypeMethods       methodSet              // the method set of rtype, which implements the reflect.Type interface.
	runtimeErrorString types.Type             // the runtime.errorString type
	sizes              types.Sizes            // the effective type-sizing function
	goroutines         int32                  // atomically updated

	// symbolic execution state
	sol         *smt.Solver
	ps          *pathState
	stats       EngineStats
	symMapOrder int // 0 off, 1 at iteration sites in package bexpr only, 2 everywhere
	stepBudget  int64
	deadline    time.Time // of the harness; checked inside paths at solver calls
	tier        int
	seed        int64
	mon         *monitor
	eng         *Engine
	fnCount     map[*ssa.Function]int64
	auditEvery  int
	auditCount  int
	memoOn      bool
	memo        map[string]*memoEntry
}

type deferred struct {
	fn    value
	args  []value
	instr *ssa.Defer
	tail  *deferred
}

type frame struct {
	i                *interpreter
	caller           *frame
	fn               *ssa.Function
	block, prevBlock *ssa.BasicBlock
	env              []value             // dynamic values of SSA variables, indexed by fi.index
	fi               *funcInfo
	locals           []value
	defers           *deferred
	result           value
	panicking        bool
	panic            interface{}
	phitemps         []value // temporaries for parallel phi assignment
}

func (fr *frame) get(key ssa.Value) value {
	switch key := key.(type) {
	case nil:
		// Hack; simplifies handling of optional attributes
		// such as ssa.Slice.{Low,High}.
		return nil
	case *ssa.Function, *ssa.Builtin:
		return key
	case *ssa.Const:
		return constValue(key)
	case *ssa.Global:
		if r, ok := fr.i.globals[key]; ok {
			return r
		}
	}
	if k, ok := fr.fi.index[key]; ok {
		return fr.env[k]
	}
	panic(engineFault(fmt.Sprintf("get: no value for %T: %v", key, key.Name())))
}

// runDefer runs a deferred call d.
// It always returns normally, but may set or clear fr.panic.
func (fr *frame) runDefer(d *deferred) {
	if fr.i.mode&EnableTracing != 0 {
		fmt.Fprintf(os.Stderr, "%s: invoking deferred function call\n",
			fr.i.prog.Fset.Position(d.instr.Pos()))
	}
	var ok bool
	defer func() {
		if !ok {
			// Deferred call created a new state of panic.
			p := recover()
			if isEnginePanic(p) {
				panic(p)
			}
			fr.panicking = true
			fr.panic = p
		}
	}()
	call(fr.i, fr, d.instr.Pos(), d.fn, d.args)
	ok = true
}

// runDefers executes fr's deferred function calls in LIFO order.
//
// On entry, fr.panicking indicates a state of panic; if
// true, fr.panic contains the panic value.
//
// On completion, if a deferred call started a panic, or if no
// deferred call recovered from a previous state of panic, then
// runDefers itself panics after the last deferred call has run.
//
// If there was no initial state of panic, or it was recovered from,
// runDefers returns normally.
func (fr *frame) runDefers() {
	for d := fr.defers; d != nil; d = d.tail {
		fr.runDefer(d)
	}
	fr.defers = nil
	if fr.panicking {
		panic(fr.panic) // new panic, or still panicking
	}
}

// lookupMethod returns the method set for type typ, which may be one
// of the interpreter's fake types.
func lookupMethod(i *interpreter, typ types.Type, meth *types.Func) *ssa.Function {
	switch typ {
	case rtypeType:
		return i.rtypeMethods[meth.Id()]
	case errorType:
		return i.errorMethods[meth.Id()]
	}
	return i.prog.LookupMethod(typ, meth.Pkg(), meth.Name())
}

// visitInstr interprets a single ssa.Instruction within the activation
// record frame.  It returns a continuation value indicating where to
// read the next instruction from.
func visitInstr(fr *frame, instr ssa.Instruction) continuation {
	switch instr := instr.(type) {
	case *ssa.DebugRef:
		// no-op

	case *ssa.UnOp:
		fr.env[fr.fi.index[instr]] = unopS(fr, instr, fr.get(instr.X))

	case *ssa.BinOp:
		fr.env[fr.fi.index[instr]] = binopS(fr.i, instr.Op, instr.X.Type(), fr.get(instr.X), fr.get(instr.Y))

	case *ssa.Call:
		fn, args := prepareCall(fr, &instr.Call)
		fr.env[fr.fi.index[instr]] = call(fr.i, fr, instr.Pos(), fn, args)

	case *ssa.ChangeInterface:
		fr.env[fr.fi.index[instr]] = fr.get(instr.X)

	case *ssa.ChangeType:
		fr.env[fr.fi.index[instr]] = fr.get(instr.X) // (can't fail)

	case *ssa.Convert:
		fr.env[fr.fi.index[instr]] = convS(fr.i, instr.Type(), instr.X.Type(), fr.get(instr.X))

	case *ssa.SliceToArrayPointer:
		fr.env[fr.fi.index[instr]] = sliceToArrayPointer(instr.Type(), instr.X.Type(), fr.get(instr.X))

	case *ssa.MakeInterface:
		fr.env[fr.fi.index[instr]] = iface{t: instr.X.Type(), v: fr.get(instr.X)}

	case *ssa.Extract:
		fr.env[fr.fi.index[instr]] = fr.get(instr.Tuple).(tuple)[instr.Index]

	case *ssa.Slice:
		fr.env[fr.fi.index[instr]] = sliceS(fr.i, fr.get(instr.X), fr.get(instr.Low), fr.get(instr.High), fr.get(instr.Max))

	case *ssa.Return:
		switch len(instr.Results) {
		case 0:
		case 1:
			fr.result = fr.get(instr.Results[0])
		default:
			var res []value
			for _, r := range instr.Results {
				res = append(res, fr.get(r))
			}
			fr.result = tuple(res)
		}
		fr.block = nil
		return kReturn

	case *ssa.RunDefers:
		fr.runDefers()

	case *ssa.Panic:
		panic(targetPanic{fr.get(instr.X)})

	case *ssa.Send:
		panic(abortPath{"inconclusive", "channel send not modelled"})

	case *ssa.Store:
		addr := fr.get(instr.Addr).(*value)
		if addr == nil {
			panic(runtimePanic(fr.i, "runtime error: invalid memory address or nil pointer dereference"))
		}
		if fr.i.mon != nil {
			fr.i.mon.onStoreV(fr, addr, instr, fr.get(instr.Val))
		}
		store(mustDeref(instr.Addr.Type()), addr, fr.get(instr.Val))

	case *ssa.If:
		succ := 1
		switch c := fr.get(instr.Cond).(type) {
		case bool:
			if c {
				succ = 0
			}
		case *Sym:
			if fr.i.decide(c.T, "if") {
				succ = 0
			}
		default:
			panic(engineFault(fmt.Sprintf("If on %T", c)))
		}
		fr.prevBlock, fr.block = fr.block, fr.block.Succs[succ]
		return kJump

	case *ssa.Jump:
		fr.prevBlock, fr.block = fr.block, fr.block.Succs[0]
		return kJump

	case *ssa.Defer:
		fn, args := prepareCall(fr, &instr.Call)
		defers := &fr.defers
		if into := fr.get(instr.DeferStack); into != nil {
			defers = into.(**deferred)
		}
		*defers = &deferred{
			fn:    fn,
			args:  args,
			instr: instr,
			tail:  *defers,
		}

	case *ssa.Go:
		fr.i.ps.events = append(fr.i.ps.events, "sync:go-statement")
		panic(abortPath{"inconclusive", "go statement not modelled"})

	case *ssa.MakeChan:
		fr.i.ps.events = append(fr.i.ps.events, "sync:make-chan")
		fr.env[fr.fi.index[instr]] = make(chan value, asInt64(fr.get(instr.Size)))

	case *ssa.Alloc:
		var addr *value
		if instr.Heap {
			// new
			addr = new(value)
			fr.env[fr.fi.index[instr]] = addr
		} else {
			// local
			addr = fr.env[fr.fi.index[instr]].(*value)
		}
		*addr = zero(mustDeref(instr.Type()))

	case *ssa.MakeSlice:
		capv := fr.i.concInt(fr.get(instr.Cap), 0, 4096, "make-cap")
		lenv := fr.i.concInt(fr.get(instr.Len), 0, 4096, "make-len")
		if lenv < 0 || capv < lenv {
			panic(runtimePanic(fr.i, "runtime error: makeslice: len out of range"))
		}
		slice := make([]value, capv)
		tElt := instr.Type().Underlying().(*types.Slice).Elem()
		for i := range slice {
			slice[i] = zero(tElt)
		}
		fr.env[fr.fi.index[instr]] = slice[:lenv]

	case *ssa.MakeMap:
		var reserve int64
		if instr.Reserve != nil {
			reserve = asInt64(fr.get(instr.Reserve))
		}
		if !fitsInt(reserve, fr.i.sizes) {
			panic(engineFault(fmt.Sprintf("ssa.MakeMap.Reserve value %d does not fit in int", reserve)))
		}
		fr.env[fr.fi.index[instr]] = makeMap(instr.Type().Underlying().(*types.Map).Key(), reserve)

	case *ssa.Range:
		fr.env[fr.fi.index[instr]] = rangeIter(fr, fr.get(instr.X), instr.X.Type())

	case *ssa.Next:
		fr.env[fr.fi.index[instr]] = fr.get(instr.Iter).(iter).next()

	case *ssa.FieldAddr:
		p := fr.get(instr.X).(*value)
		if p == nil {
			panic(runtimePanic(fr.i, "runtime error: invalid memory address or nil pointer dereference"))
		}
		fr.env[fr.fi.index[instr]] = &(*p).(structure)[instr.Field]

	case *ssa.Field:
		fr.env[fr.fi.index[instr]] = fr.get(instr.X).(structure)[instr.Field]

	case *ssa.IndexAddr:
		x := fr.get(instr.X)
		idx := fr.get(instr.Index)
		switch x := x.(type) {
		case []value:
			fr.env[fr.fi.index[instr]] = &x[fr.i.concIndex(idx, len(x))]
		case *value: // *array
			if x == nil {
				panic(runtimePanic(fr.i, "runtime error: invalid memory address or nil pointer dereference"))
			}
			a := (*x).(array)
			fr.env[fr.fi.index[instr]] = &a[fr.i.concIndex(idx, len(a))]
		default:
			panic(engineFault(fmt.Sprintf("unexpected x type in IndexAddr: %T", x)))
		}

	case *ssa.Index:
		x := fr.get(instr.X)
		idx := fr.get(instr.Index)

		switch x := x.(type) {
		case array:
			fr.env[fr.fi.index[instr]] = x[fr.i.concIndex(idx, len(x))]
		case string:
			fr.env[fr.fi.index[instr]] = x[fr.i.concIndex(idx, len(x))]
		case *SymStr:
			fr.env[fr.fi.index[instr]] = x.B[fr.i.concIndex(idx, len(x.B))]
		default:
			panic(engineFault(fmt.Sprintf("unexpected x type in Index: %T", x)))
		}

	case *ssa.Lookup:
		fr.env[fr.fi.index[instr]] = lookup(fr.i, instr, fr.get(instr.X), fr.get(instr.Index))

	case *ssa.MapUpdate:
		m := fr.get(instr.Map)
		key := fr.get(instr.Key)
		v := fr.get(instr.Value)
		switch m := m.(type) {
		case *smap:
			if fr.i.mon != nil {
				if _, watched := fr.i.mon.maps[m]; watched && indexable(key) && m.nsym == 0 {
					if p, ok := m.idx[key]; ok && sameValue(m.vals[p], v, 0) {
						fr.i.mon.note(fr, "same-value write to pre-existing map "+fr.i.mon.maps[m], instr.Pos())
						m.insert(fr.i, key, v)
						break
					}
				}
				fr.i.mon.onMapWrite(fr, m, instr)
			}
			m.insert(fr.i, key, v)
		default:
			panic(engineFault(fmt.Sprintf("illegal map type: %T", m)))
		}

	case *ssa.TypeAssert:
		fr.env[fr.fi.index[instr]] = typeAssert(fr.i, instr, fr.get(instr.X).(iface))

	case *ssa.MakeClosure:
		var bindings []value
		for _, binding := range instr.Bindings {
			bindings = append(bindings, fr.get(binding))
		}
		fr.env[fr.fi.index[instr]] = &closure{instr.Fn.(*ssa.Function), bindings}

	case *ssa.Phi:
		panic(engineFault("phi reached"))

	case *ssa.Select:
		fr.i.ps.events = append(fr.i.ps.events, "sync:select")
		panic(abortPath{"inconclusive", "select not modelled"})

	default:
		panic(engineFault(fmt.Sprintf("unexpected instruction: %T", instr)))
	}

	// if val, ok := instr.(ssa.Value); ok {
	// 	fmt.Println(toString(fr.env[val])) // debugging
	// }

	return kNext
}

// prepareCall determines the function value and argument values for a
// function call in a Call, Go or Defer instruction, performing
// interface method lookup if needed.
func prepareCall(fr *frame, call *ssa.CallCommon) (fn value, args []value) {
	v := fr.get(call.Value)
	if call.Method == nil {
		// Function call.
		fn = v
	} else {
		// Interface method invocation.
		recv := v.(iface)
		if recv.t == nil {
			panic(runtimePanic(fr.i, "invalid memory address or nil pointer dereference"))
		}
		if f := lookupMethod(fr.i, recv.t, call.Method); f == nil {
			// Unreachable in well-typed programs.
			panic(engineFault(fmt.Sprintf("method set for dynamic type %v does not contain %s", recv.t, call.Method)))
		} else {
			fn = f
		}
		args = append(args, recv.v)
	}
	for _, arg := range call.Args {
		args = append(args, fr.get(arg))
	}
	return
}

// call interprets a call to a function (function, builtin or closure)
// fn with arguments args, returning its result.
// callpos is the position of the callsite.
func call(i *interpreter, caller *frame, callpos token.Pos, fn value, args []value) value {
	switch fn := fn.(type) {
	case *ssa.Function:
		if fn == nil {
			panic(runtimePanic(i, "invalid memory address or nil pointer dereference"))
		}
		return callSSA(i, caller, callpos, fn, args, nil)
	case *closure:
		return callSSA(i, caller, callpos, fn.Fn, args, fn.Env)
	case *ssa.Builtin:
		return callBuiltin(caller, callpos, fn, args)
	}
	panic(engineFault(fmt.Sprintf("cannot call %T", fn)))
}

func loc(fset *token.FileSet, pos token.Pos) string {
	if pos == token.NoPos {
		return ""
	}
	return " at " + fset.Position(pos).String()
}

// callSSA interprets a call to function fn with arguments args,
// and lexical environment env, returning its result.
// callpos is the position of the callsite.
// runBody is returned by an external that declines a call: the function's
// own SSA body is executed instead.
type runBody struct{}

func callSSA(i *interpreter, caller *frame, callpos token.Pos, fn *ssa.Function, args []value, env []value) value {
	if i.mode&EnableTracing != 0 {
		fset := fn.Prog.Fset
		// TODO(adonovan): fix: loc() lies for external functions.
		fmt.Fprintf(os.Stderr, "Entering %s%s.\n", fn, loc(fset, fn.Pos()))
		suffix := ""
		if caller != nil {
			suffix = ", resuming " + caller.fn.String() + loc(fset, callpos)
		}
		defer fmt.Fprintf(os.Stderr, "Leaving %s%s.\n", fn, suffix)
	}
	fr := &frame{
		i:      i,
		caller: caller, // for panic/recover
		fn:     fn,
	}
	fi := i.eng.funcInfoOf(fn)
	if fn.Parent() == nil {
		name := fi.name
		if ext := fi.ext; ext != nil {
			if i.mode&EnableTracing != 0 {
				fmt.Fprintln(os.Stderr, "\t(external)")
			}
			if r := ext(fr, args); r != (runBody{}) {
				i.noteCall(fn, true)
				return r
			}
		}
		if fn.Blocks == nil && fi.ext == nil {
			if in := intrinsics[fn.Name()]; in != nil {
				return in(fr, args)
			}
			panic(abortPath{"inconclusive", "unmodelled external " + name})
		}
		if fi.denied {
			if fn.Name() == "init" && fn.Signature.Recv() == nil {
				return nil
			}
			panic(abortPath{"inconclusive", "unmodelled function " + name})
		}
	}
	i.noteCall(fn, false)
	if key, ok := i.memoKey(fn, args); ok {
		i.eng.memoMu.RLock()
		e, hit := i.eng.memo[key]
		i.eng.memoMu.RUnlock()
		if hit {
			if r, ok := deepCopy(e.result); ok {
				for f, c := range e.counts {
					i.fnCount[f] += c
				}
				return r
			}
		}
		i.eng.memoMu.RLock()
		impure := i.eng.impure[key]
		i.eng.memoMu.RUnlock()
		if impure || i.mon != nil {
			return callSSAbody(i, fr, fn, args, env)
		}
		before := map[*ssa.Function]int64{}
		for f, c := range i.fnCount {
			before[f] = c
		}
		// purity guard: the first execution runs under an effect monitor; a
		// result is memoised only if the call wrote no pre-existing cell
		// (package globals included) and performed no synchronisation.
		nEvents := len(i.ps.events)
		i.mon = newMonitor(i, args)
		r := callSSAbody(i, fr, fn, args, env)
		writes := i.mon.writes
		i.mon = nil
		pure := len(writes) == 0
		for _, ev := range i.ps.events[nEvents:] {
			if strings.HasPrefix(ev, "sync:") {
				pure = false
			}
		}
		if !pure {
			i.eng.memoMu.Lock()
			i.eng.impure[key] = true
			i.eng.memoMu.Unlock()
			return r
		}
		if t, ok := r.(tuple); ok && len(t) == 2 {
			if e, ok := t[1].(iface); ok && e.t == nil {
				if cp, ok := deepCopy(r); ok {
					d := map[*ssa.Function]int64{}
					for f, c := range i.fnCount {
						if c != before[f] {
							d[f] = c - before[f]
						}
					}
					i.eng.memoMu.Lock()
					i.eng.memo[key] = &memoEntry{result: cp, counts: d}
					i.eng.memoMu.Unlock()
				}
			}
		}
		return r
	}
	return callSSAbody(i, fr, fn, args, env)
}

func callSSAbody(i *interpreter, fr *frame, fn *ssa.Function, args []value, env []value) value {
	fi := i.eng.funcInfoOf(fn)

	// generic function body?
	if fn.TypeParams().Len() > 0 && len(fn.TypeArgs()) == 0 {
		panic(engineFault("interp requires ssa.BuilderMode to include InstantiateGenerics to execute generics"))
	}

	fr.fi = fi
	fr.env = make([]value, fr.fi.n)
	fr.block = fn.Blocks[0]
	fr.locals = make([]value, len(fn.Locals))
	for i, l := range fn.Locals {
		fr.locals[i] = zero(mustDeref(l.Type()))
		fr.env[fr.fi.index[l]] = &fr.locals[i]
	}
	for i, p := range fn.Params {
		fr.env[fr.fi.index[p]] = args[i]
	}
	for i, fv := range fn.FreeVars {
		fr.env[fr.fi.index[fv]] = env[i]
	}
	for fr.block != nil {
		runFrame(fr)
	}
	// Destroy the locals to avoid accidental use after return.
	for i := range fn.Locals {
		fr.locals[i] = bad{}
	}
	return fr.result
}

// runFrame executes SSA instructions starting at fr.block and
// continuing until a return, a panic, or a recovered panic.
//
// After a panic, runFrame panics.
//
// After a normal return, fr.result contains the result of the call
// and fr.block is nil.
//
// A recovered panic in a function without named return parameters
// (NRPs) becomes a normal return of the zero value of the function's
// result type.
//
// After a recovered panic in a function with NRPs, fr.result is
// undefined and fr.block contains the block at which to resume
// control.
func runFrame(fr *frame) {
	defer func() {
		if fr.block == nil {
			return // normal return
		}
		if fr.i.mode&DisableRecover != 0 {
			return // let interpreter crash
		}
		p := recover()
		if isEnginePanic(p) {
			panic(p)
		}
		fr.panicking = true
		fr.panic = p
		if fr.i.mode&EnableTracing != 0 {
			fmt.Fprintf(os.Stderr, "Panicking: %T %v.\n", fr.panic, fr.panic)
		}
		fr.runDefers()
		fr.block = fr.fn.Recover
	}()

	for {
		if fr.i.mode&EnableTracing != 0 {
			fmt.Fprintf(os.Stderr, ".%s:\n", fr.block)
		}

		nonPhis := executePhis(fr)
		fr.i.ps.steps += int64(len(nonPhis))
		if fr.i.ps.steps > fr.i.stepBudget {
			panic(abortPath{"budget", "step budget exceeded"})
		}
		for _, instr := range nonPhis {
			if fr.i.mode&EnableTracing != 0 {
				if v, ok := instr.(ssa.Value); ok {
					fmt.Fprintln(os.Stderr, "\t", v.Name(), "=", instr)
				} else {
					fmt.Fprintln(os.Stderr, "\t", instr)
				}
			}
			if visitInstr(fr, instr) == kReturn {
				return
			}
			// Inv: kNext (continue) or kJump (last instr)
		}
	}
}

// executePhis executes the phi-nodes at the start of the current
// block and returns the non-phi instructions.
func executePhis(fr *frame) []ssa.Instruction {
	firstNonPhi := -1
	for i, instr := range fr.block.Instrs {
		if _, ok := instr.(*ssa.Phi); !ok {
			firstNonPhi = i
			break
		}
	}
	// Inv: 0 <= firstNonPhi; every block contains a non-phi.

	nonPhis := fr.block.Instrs[firstNonPhi:]
	if firstNonPhi > 0 {
		phis := fr.block.Instrs[:firstNonPhi]
		// Execute parallel assignment of phis.
		//
		// See "the swap problem" in Briggs et al's "Practical Improvements
		// to the Construction and Destruction of SSA Form" for discussion.
		predIndex := slices.Index(fr.block.Preds, fr.prevBlock)
		fr.phitemps = fr.phitemps[:0]
		for _, phi := range phis {
			phi := phi.(*ssa.Phi)
			if fr.i.mode&EnableTracing != 0 {
				fmt.Fprintln(os.Stderr, "\t", phi.Name(), "=", phi)
			}
			fr.phitemps = append(fr.phitemps, fr.get(phi.Edges[predIndex]))
		}
		for i, phi := range phis {
			fr.env[fr.fi.index[phi.(*ssa.Phi)]] = fr.phitemps[i]
		}
	}
	return nonPhis
}

// doRecover implements the recover() built-in.
func doRecover(caller *frame) value {
	// recover() must be exactly one level beneath the deferred
	// function (two levels beneath the panicking function) to
	// have any effect.  Thus we ignore both "defer recover()" and
	// "defer f() -> g() -> recover()".
	if caller.i.mode&DisableRecover == 0 &&
		caller != nil && !caller.panicking &&
		caller.caller != nil && caller.caller.panicking {
		caller.caller.panicking = false
		p := caller.caller.panic
		caller.caller.panic = nil

		// TODO(adonovan): support runtime.Goexit.
		switch p := p.(type) {
		case targetPanic:
			// The target program explicitly called panic().
			return p.v
		case runtime.Error:
			// The interpreter encountered a runtime error.
			return iface{caller.i.runtimeErrorString, p.Error()}
		case string:
			// The interpreter explicitly called panic().
			return iface{caller.i.runtimeErrorString, p}
		case nil:
			return iface{}
		default:
			panic(engineFault(fmt.Sprintf("unexpected panic type %T in target call to recover()", p)))
		}
	}
	return iface{}
}

