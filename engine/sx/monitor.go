package sx

// Effect monitor: records writes, during a monitored section, to memory cells
// that existed (were reachable from the given roots or from the subject
// packages' globals) when the section started.

import (
	"fmt"
	"go/types"
	"go/token"
	"unsafe"

	"golang.org/x/tools/go/ssa"
)

type monitor struct {
	cells  map[*value]string // pre-existing cells -> description of how reached
	maps   map[*smap]string
	writes []string
	seenW  map[string]bool
	// writes made while a write lock is held, inside sync.Once.Do, or by a
	// sync / atomic primitive itself: ordered by that synchronisation, so not
	// part of what vMonitorStop reports (kept for the evidence file)
	syncWrites []string
}

func (m *monitor) note(fr *frame, what string, pos token.Pos) {
	m.noteS(fr, what, pos, false)
}

func (m *monitor) noteS(fr *frame, what string, pos token.Pos, bySyncPrimitive bool) {
	where := fr.fn.String()
	if pos.IsValid() {
		p := fr.i.prog.Fset.Position(pos)
		where += fmt.Sprintf(" %s:%d", shortFile(p.Filename), p.Line)
	}
	s := what + " @ " + where
	if !m.seenW[s] {
		m.seenW[s] = true
		if bySyncPrimitive || fr.i.ps.wlock > 0 {
			m.syncWrites = append(m.syncWrites, s)
			fr.i.ps.events = append(fr.i.ps.events, "sync:write-under-synchronisation")
			return
		}
		m.writes = append(m.writes, s)
	}
}

func shortFile(f string) string {
	for k := len(f) - 1; k >= 0; k-- {
		if f[k] == '/' {
			return f[k+1:]
		}
	}
	return f
}

func (m *monitor) onStore(fr *frame, addr *value, instr *ssa.Store) {
	if d, ok := m.cells[addr]; ok {
		m.note(fr, "store to pre-existing cell "+d, instr.Pos())
	}
}

// onStoreV: as onStore, but a store of the value the cell already holds is
// labelled "same-value": still a write (and a race if unordered), but not a
// modification an observer of the datum could see.
func (m *monitor) onStoreV(fr *frame, addr *value, instr *ssa.Store, v value) {
	if d, ok := m.cells[addr]; ok {
		if sameValue(*addr, v, 0) {
			m.note(fr, "same-value store to pre-existing cell "+d, instr.Pos())
			return
		}
		m.note(fr, "store to pre-existing cell "+d, instr.Pos())
	}
}

// sameValue: structural identity of two executor values (concrete scalars
// equal, symbolic scalars the same term, interfaces of the same dynamic type
// with same content, pointers/maps/slices the same object). Conservative: false when unsure.
func sameValue(a, b value, depth int) bool {
	if depth > 8 {
		return false
	}
	switch x := a.(type) {
	case nil:
		return b == nil
	case bool, int, int8, int16, int32, int64, uint, uint8, uint16, uint32, uint64, uintptr, float32, float64, string, complex64, complex128:
		return a == b
	case *Sym:
		y, ok := b.(*Sym)
		return ok && x.T == y.T
	case iface:
		y, ok := b.(iface)
		if !ok || (x.t == nil) != (y.t == nil) {
			return false
		}
		if x.t == nil {
			return true
		}
		return types.Identical(x.t, y.t) && sameValue(x.v, y.v, depth+1)
	case *value:
		y, ok := b.(*value)
		return ok && x == y
	case *smap:
		y, ok := b.(*smap)
		return ok && x == y
	case []value:
		y, ok := b.([]value)
		if !ok || len(x) != len(y) || cap(x) != cap(y) {
			return false
		}
		return len(x) == 0 && cap(x) == 0 || cap(x) > 0 && &x[:1][0] == &y[:1][0]
	case structure:
		y, ok := b.(structure)
		if !ok || len(x) != len(y) {
			return false
		}
		for k := range x {
			if !sameValue(x[k], y[k], depth+1) {
				return false
			}
		}
		return true
	}
	return false
}

func (m *monitor) onMapWrite(fr *frame, mp *smap, instr ssa.Instruction) {
	if d, ok := m.maps[mp]; ok {
		pos := token.NoPos
		if instr != nil {
			pos = instr.Pos()
		}
		m.note(fr, "write to pre-existing map "+d, pos)
	}
}

// onAppend: appending n elements to s writes into spare capacity if it fits.
func (m *monitor) onAppend(fr *frame, s []value, n int) {
	if n == 0 || len(s)+n > cap(s) {
		return
	}
	ext := s[:len(s)+n]
	for k := len(s); k < len(ext); k++ {
		if d, ok := m.cells[&ext[k]]; ok {
			m.note(fr, "append into spare capacity of pre-existing slice "+d, token.NoPos)
			return
		}
	}
}

func (m *monitor) onCopy(fr *frame, dst []value, n int) {
	if n > len(dst) {
		n = len(dst)
	}
	for k := 0; k < n; k++ {
		if d, ok := m.cells[&dst[k]]; ok {
			m.note(fr, "copy into pre-existing slice "+d, token.NoPos)
			return
		}
	}
}

// reach registers every cell reachable from v.
func (m *monitor) reach(v value, desc string, depth int, seenSl map[unsafe.Pointer]bool) {
	if depth > 64 {
		return
	}
	switch x := v.(type) {
	case *value:
		if x == nil {
			return
		}
		if _, ok := m.cells[x]; ok {
			return
		}
		m.cells[x] = desc
		m.reachInside(x, desc, depth+1, seenSl)
	case []value:
		if cap(x) == 0 {
			return
		}
		full := x[:cap(x)]
		key := unsafe.Pointer(&full[0])
		if seenSl[key] {
			return
		}
		seenSl[key] = true
		for k := range full {
			if _, ok := m.cells[&full[k]]; !ok {
				m.cells[&full[k]] = fmt.Sprintf("%s[%d]", desc, k)
				m.reachInside(&full[k], fmt.Sprintf("%s[%d]", desc, k), depth+1, seenSl)
			}
		}
	case *smap:
		if x == nil {
			return
		}
		if _, ok := m.maps[x]; ok {
			return
		}
		m.maps[x] = desc
		for k := range x.keys {
			m.reach(x.keys[k], desc+".key", depth+1, seenSl)
			m.reach(x.vals[k], desc+".val", depth+1, seenSl)
		}
	case iface:
		m.reach(x.v, desc, depth+1, seenSl)
	case structure:
		for k := range x {
			m.reach(x[k], fmt.Sprintf("%s.f%d", desc, k), depth+1, seenSl)
		}
	case array:
		for k := range x {
			m.reach(x[k], fmt.Sprintf("%s[%d]", desc, k), depth+1, seenSl)
		}
	case *closure:
		for k := range x.Env {
			m.reach(x.Env[k], desc+".env", depth+1, seenSl)
		}
	case tuple:
		for k := range x {
			m.reach(x[k], desc, depth+1, seenSl)
		}
	}
}

// reachInside registers the interior cells of the aggregate stored at p.
func (m *monitor) reachInside(p *value, desc string, depth int, seenSl map[unsafe.Pointer]bool) {
	switch c := (*p).(type) {
	case structure:
		for k := range c {
			if _, ok := m.cells[&c[k]]; !ok {
				m.cells[&c[k]] = fmt.Sprintf("%s.f%d", desc, k)
				m.reachInside(&c[k], fmt.Sprintf("%s.f%d", desc, k), depth+1, seenSl)
			}
		}
	case array:
		for k := range c {
			if _, ok := m.cells[&c[k]]; !ok {
				m.cells[&c[k]] = fmt.Sprintf("%s[%d]", desc, k)
				m.reachInside(&c[k], fmt.Sprintf("%s[%d]", desc, k), depth+1, seenSl)
			}
		}
	default:
		m.reach(c, desc, depth+1, seenSl)
	}
}

func newMonitor(i *interpreter, roots []value) *monitor {
	m := &monitor{cells: map[*value]string{}, maps: map[*smap]string{}, seenW: map[string]bool{}}
	seenSl := map[unsafe.Pointer]bool{}
	for k, r := range roots {
		m.reach(r, fmt.Sprintf("root%d", k), 0, seenSl)
	}
	for g, cell := range i.globals {
		if g.Pkg != nil && i.eng.subject[g.Pkg.Pkg.Path()] {
			m.reach(cell, "global "+g.Pkg.Pkg.Name()+"."+g.Name(), 0, seenSl)
		}
	}
	return m
}

func intrMonitorStart(fr *frame, args []value) value {
	fr.i.mon = newMonitor(fr.i, args[0].([]value))
	return nil
}

func intrMonitorStop(fr *frame, args []value) value {
	m := fr.i.mon
	fr.i.mon = nil
	out := []value{}
	if m != nil {
		for _, w := range m.writes {
			out = append(out, w)
		}
	}
	return out
}

// onStore2 records a write performed by a modelled library call on the cell.
func (m *monitor) onStore2(fr *frame, addr *value, what string) {
	if d, ok := m.cells[addr]; ok {
		bySync := what == "sync.Once" || what == "sync.Map" || what == "atomic.Value" || what == "atomic"
		m.noteS(fr, what+" write to pre-existing cell "+d, token.NoPos, bySync)
	}
}
