package sx

// Model of fmt.Sprintf / Errorf / Fprintf / Sprint and errors.Is.

import (
	"fmt"
	"go/types"
	"strconv"
	"strings"

	"golang.org/x/tools/go/ssa"

	"gosx/smt"
)

// opaqueStr is a string whose content the model does not compute. Any
// inspection of it (comparison, indexing, length) ends the path as
// inconclusive; concatenation and formatting keep it opaque.
func opaqueStr(why string) value { return &SymStr{Opaque: true, Why: why} }

func isOpaque(v value) bool {
	s, ok := v.(*SymStr)
	return ok && s.Opaque
}

// strCat concatenates string values, propagating opacity.
func strCat(parts ...value) value {
	var out []value
	for _, p := range parts {
		if isOpaque(p) {
			return p
		}
		out = append(out, strBytes(p)...)
	}
	return mkStr(out)
}

// callMethod invokes method name (no args) on iface x if its dynamic type has it.
func callMethod0(fr *frame, x iface, name string) (value, bool) {
	if x.t == nil {
		return nil, false
	}
	if x.t == errorType && name == "Error" {
		return x.v, true
	}
	if x.t == rtypeType {
		if name == "String" {
			return typeString(x.v.(rtype).t), true
		}
		return nil, false
	}
	ms := fr.i.prog.MethodSets.MethodSet(x.t)
	for k := 0; k < ms.Len(); k++ {
		sel := ms.At(k)
		if sel.Obj().Name() != name {
			continue
		}
		sig := sel.Obj().Type().(*types.Signature)
		if sig.Params().Len() != 0 || sig.Results().Len() != 1 {
			return nil, false
		}
		fn := fr.i.prog.MethodValue(sel)
		if fn == nil {
			return nil, false
		}
		return call(fr.i, fr, 0, fn, []value{x.v}), true
	}
	return nil, false
}

func hasStringResult(fr *frame, x iface, name string) bool {
	if x.t == nil {
		return false
	}
	if x.t == errorType {
		return name == "Error"
	}
	if x.t == rtypeType {
		return name == "String"
	}
	ms := fr.i.prog.MethodSets.MethodSet(x.t)
	for k := 0; k < ms.Len(); k++ {
		sel := ms.At(k)
		if sel.Obj().Name() == name {
			sig := sel.Obj().Type().(*types.Signature)
			if sig.Params().Len() == 0 && sig.Results().Len() == 1 {
				if b, ok := sig.Results().At(0).Type().Underlying().(*types.Basic); ok && b.Kind() == types.String {
					return true
				}
			}
		}
	}
	return false
}

// goValue converts a concrete interpreter value of static type t to a native
// Go value that fmt prints the same way (basic kinds and flat slices only).
func goValue(t types.Type, v value) (interface{}, bool) {
	switch x := v.(type) {
	case bool, int, int8, int16, int32, int64, uint, uint8, uint16, uint32, uint64, uintptr, float32, float64, complex64, complex128, string:
		return x, true
	case []value:
		if st, ok := t.Underlying().(*types.Slice); ok {
			if b, ok := st.Elem().Underlying().(*types.Basic); ok {
				switch b.Kind() {
				case types.String:
					out := make([]string, len(x))
					for k, e := range x {
						s, ok := e.(string)
						if !ok {
							return nil, false
						}
						out[k] = s
					}
					return out, true
				case types.Uint8:
					bs, ok := bytesConcrete(x)
					return bs, ok
				case types.Int:
					out := make([]int, len(x))
					for k, e := range x {
						s, ok := e.(int)
						if !ok {
							return nil, false
						}
						out[k] = s
					}
					return out, true
				}
			}
		}
	}
	return nil, false
}

// formatArg renders one operand for verb spec (e.g. "%5d", "%q", "%#v").
func formatArg(fr *frame, spec string, verb byte, sharp bool, a iface) value {
	if verb == 'T' {
		if a.t == nil {
			return "<nil>"
		}
		return typeString(a.t)
	}
	if a.t == nil {
		return fmt.Sprintf(spec, nil)
	}
	if !sharp {
		switch verb {
		case 'v', 's', 'x', 'X', 'q', 'w':
			for _, m := range []string{"Error", "String"} {
				if hasStringResult(fr, a, m) {
					if p, ok := a.v.(*value); ok && p == nil {
						return "<nil>"
					}
					s, _ := callMethod0(fr, a, m)
					if verb == 'w' {
						spec = strings.Replace(spec, "w", "v", 1)
					}
					if c, ok := s.(string); ok {
						return fmt.Sprintf(spec, c)
					}
					if isOpaque(s) {
						return s
					}
					if verb == 'q' {
						return quoteSym(fr.i, s)
					}
					return s
				}
			}
		}
	}
	if verb == 'w' {
		spec = strings.Replace(spec, "w", "v", 1)
	}
	switch x := a.v.(type) {
	case *Sym:
		return opaqueStr("format of symbolic scalar")
	case *SymStr:
		if x.Opaque {
			return x
		}
		if (verb == 's' || verb == 'v') && !sharp {
			return x
		}
		if verb == 'q' && !sharp && spec == "%q" {
			return quoteSym(fr.i, x)
		}
		return opaqueStr("%" + string(verb) + " of symbolic string")
	}
	if g, ok := goValue(a.t, a.v); ok {
		if _, isStr := g.(string); isStr && sharp && verb == 'v' {
			return strconv.Quote(g.(string))
		}
		return fmt.Sprintf(spec, g)
	}
	return opaqueStr(fmt.Sprintf("format %s of %s", spec, a.t))
}

// sprintf is the model of fmt.Sprintf; it also returns the operands of %w.
func sprintf(fr *frame, format value, args []value) (value, []iface) {
	f := concStr(format, "fmt format string")
	var parts []value
	var wrapped []iface
	argi := 0
	n := len(f)
	for p := 0; p < n; {
		q := strings.IndexByte(f[p:], '%')
		if q < 0 {
			parts = append(parts, f[p:])
			break
		}
		parts = append(parts, f[p:p+q])
		p += q
		start := p
		p++ // '%'
		sharp := false
		for p < n && strings.IndexByte("+-# 0", f[p]) >= 0 {
			if f[p] == '#' {
				sharp = true
			}
			p++
		}
		explicit := -1
		parseIdx := func() {
			if p < n && f[p] == '[' {
				e := strings.IndexByte(f[p:], ']')
				if e > 0 {
					k, err := strconv.Atoi(f[p+1 : p+e])
					if err == nil {
						explicit = k - 1
					}
					p += e + 1
				}
			}
		}
		parseIdx()
		for p < n && f[p] >= '0' && f[p] <= '9' {
			p++
		}
		if p < n && f[p] == '.' {
			p++
			for p < n && f[p] >= '0' && f[p] <= '9' {
				p++
			}
		}
		parseIdx()
		if p >= n {
			parts = append(parts, "%!(NOVERB)")
			break
		}
		verb := f[p]
		p++
		if verb == '%' {
			parts = append(parts, "%")
			continue
		}
		if explicit >= 0 {
			argi = explicit
		}
		if argi >= len(args) {
			parts = append(parts, "%!"+string(verb)+"(MISSING)")
			continue
		}
		a := args[argi].(iface)
		argi++
		// spec without the [n] index
		spec := f[start:p]
		if lb := strings.IndexByte(spec, '['); lb >= 0 {
			rb := strings.IndexByte(spec, ']')
			spec = spec[:lb] + spec[rb+1:]
		}
		if verb == 'w' {
			wrapped = append(wrapped, a)
		}
		parts = append(parts, formatArg(fr, spec, verb, sharp, a))
	}
	if argi < len(args) && !strings.Contains(f, "[") {
		parts = append(parts, "%!(EXTRA)")
	}
	return strCat(parts...), wrapped
}

func ext۰fmt۰Sprintf(fr *frame, args []value) value {
	s, _ := sprintf(fr, args[0], args[1].([]value))
	return s
}

func ext۰fmt۰Sprint(fr *frame, args []value) value {
	var parts []value
	prevStr := true
	for k, a := range args[0].([]value) {
		x := a.(iface)
		_, isS := x.v.(string)
		if k > 0 && !isS && !prevStr {
			parts = append(parts, " ")
		}
		prevStr = isS
		parts = append(parts, formatArg(fr, "%v", 'v', false, x))
	}
	return strCat(parts...)
}

func ext۰fmt۰Errorf(fr *frame, args []value) value {
	msg, wrapped := sprintf(fr, args[0], args[1].([]value))
	var errs []iface
	for _, w := range wrapped {
		if w.t != nil && hasStringResult(fr, w, "Error") {
			errs = append(errs, w)
		}
	}
	fmtPkg := fr.i.prog.ImportedPackage("fmt")
	switch len(errs) {
	case 0:
		t := fr.i.prog.ImportedPackage("errors").Type("errorString").Type()
		cell := value(structure{msg})
		return iface{types.NewPointer(t), &cell}
	case 1:
		t := fmtPkg.Type("wrapError").Type()
		cell := value(structure{msg, errs[0]})
		return iface{types.NewPointer(t), &cell}
	default:
		t := fmtPkg.Type("wrapErrors").Type()
		var es []value
		for _, e := range errs {
			es = append(es, e)
		}
		cell := value(structure{msg, es})
		return iface{types.NewPointer(t), &cell}
	}
}

func ext۰fmt۰Fprintf(fr *frame, args []value) value {
	s, _ := sprintf(fr, args[1], args[2].([]value))
	w := args[0].(iface)
	if w.t == nil {
		panic(runtimePanic(fr.i, "invalid memory address or nil pointer dereference"))
	}
	if isOpaque(s) {
		// the text is not computed by the model: a marker is written instead
		// (harnesses that compare dumped text avoid the opaque cases)
		fr.i.ps.events = append(fr.i.ps.events, "opaque-write: "+s.(*SymStr).Why)
		s = "<opaque>"
	}
	b := append([]value{}, strBytes(s)...)
	ms := fr.i.prog.MethodSets.MethodSet(w.t)
	for k := 0; k < ms.Len(); k++ {
		if ms.At(k).Obj().Name() == "Write" {
			fn := fr.i.prog.MethodValue(ms.At(k))
			return call(fr.i, fr, 0, fn, []value{w.v, b})
		}
	}
	panic(engineFault("Fprintf: writer without Write"))
}

// ---- errors.Is

func ext۰errors۰Is(fr *frame, args []value) value {
	err, target := args[0].(iface), args[1].(iface)
	if err.t == nil || target.t == nil {
		return err.t == nil && target.t == nil
	}
	return errorsIs(fr, err, target, types.Comparable(target.t))
}

func findMethod(i *interpreter, t types.Type, name string) (*ssa.Function, *types.Signature) {
	if t == errorType || t == rtypeType {
		return nil, nil
	}
	ms := i.prog.MethodSets.MethodSet(t)
	for k := 0; k < ms.Len(); k++ {
		if ms.At(k).Obj().Name() == name {
			return i.prog.MethodValue(ms.At(k)), ms.At(k).Obj().Type().(*types.Signature)
		}
	}
	return nil, nil
}

func errorsIs(fr *frame, err, target iface, cmp bool) bool {
	for {
		if cmp && sameType(err.t, target.t) {
			c := equalsT(err.t, err.v, target.v)
			if fr.i.decide(c, "errors.Is") {
				return true
			}
		}
		if fn, sig := findMethod(fr.i, err.t, "Is"); fn != nil && sig.Params().Len() == 1 && sig.Results().Len() == 1 {
			r := call(fr.i, fr, 0, fn, []value{err.v, target})
			switch r := r.(type) {
			case bool:
				if r {
					return true
				}
			case *Sym:
				if fr.i.decide(r.T, "errors.Is/Is") {
					return true
				}
			}
		}
		fn, sig := findMethod(fr.i, err.t, "Unwrap")
		if fn == nil || sig.Params().Len() != 0 || sig.Results().Len() != 1 {
			return false
		}
		r := call(fr.i, fr, 0, fn, []value{err.v})
		switch r := r.(type) {
		case iface:
			if r.t == nil {
				return false
			}
			err = r
		case []value:
			for _, e := range r {
				if e.(iface).t != nil && errorsIs(fr, e.(iface), target, cmp) {
					return true
				}
			}
			return false
		default:
			return false
		}
	}
}

var _ = smt.True
