package sx

// Generic model of the rest of package regexp: any method of *regexp.Regexp
// whose operands are all concrete is executed natively on the real compiled
// expression (regexp is environment, DESIGN.md 2.5). MatchString on a
// symbolic subject shares the uninterpreted REm of Match; every other method
// on symbolic operands ends the path as inconclusive.

import (
	"fmt"
	"go/types"
	"reflect"
	"regexp"
	"strconv"
)

var regexpPassthrough = []string{
	"MatchString", "FindString", "FindStringIndex", "FindStringSubmatch", "FindStringSubmatchIndex",
	"FindAllString", "FindAllStringIndex", "FindAllStringSubmatch", "FindAllStringSubmatchIndex",
	"Find", "FindIndex", "FindSubmatch", "FindSubmatchIndex", "FindAll", "FindAllIndex", "FindAllSubmatch",
	"ReplaceAllString", "ReplaceAllLiteralString", "ReplaceAll", "ReplaceAllLiteral",
	"NumSubexp", "SubexpNames", "SubexpIndex", "LiteralPrefix", "Split",
}

func init() {
	for _, m := range regexpPassthrough {
		externals["(*regexp.Regexp)."+m] = regexpMethod(m)
	}
	externals["regexp.MustCompile"] = func(fr *frame, a []value) value {
		r := ext۰regexp۰Compile(fr, a).(tuple)
		if e, ok := r[1].(iface); ok && e.t != nil {
			pat := "(symbolic pattern)"
			if c, ok := a[0].(string); ok {
				pat = strconv.Quote(c)
			}
			em, _ := e.v.(string)
			msg := "regexp: Compile(" + pat + "): " + em
			panic(targetPanic{iface{types.Typ[types.String], msg}})
		}
		return r[0]
	}
	externals["regexp.CompilePOSIX"] = func(fr *frame, a []value) value {
		pat, ok := a[0].(string)
		if !ok {
			panic(abortPath{"inconclusive", "regexp.CompilePOSIX of a symbolic pattern"})
		}
		re, err := regexp.CompilePOSIX(pat)
		if err != nil {
			return tuple{(*value)(nil), errorValue(fr, err.Error())}
		}
		cell := value(nativeRegexp{re: re, posix: true})
		return tuple{&cell, iface{}}
	}
	externals["regexp.QuoteMeta"] = func(fr *frame, a []value) value {
		s, ok := a[0].(string)
		if !ok {
			panic(abortPath{"inconclusive", "regexp.QuoteMeta of symbolic text"})
		}
		return regexp.QuoteMeta(s)
	}
	pkgMatch := func(bytesArg bool) externalFn {
		return func(fr *frame, a []value) value {
			r := ext۰regexp۰Compile(fr, a[:1]).(tuple)
			if e, ok := r[1].(iface); ok && e.t != nil {
				return tuple{false, r[1]}
			}
			subj := a[1]
			if !bytesArg {
				subj = strBytes(a[1])
			}
			return tuple{ext۰regexp۰Match(fr, []value{r[0], subj}), iface{}}
		}
	}
	externals["regexp.MatchString"] = pkgMatch(false)
	externals["regexp.Match"] = pkgMatch(true)
}

func regexpMethod(name string) externalFn {
	return func(fr *frame, args []value) value {
		p := args[0].(*value)
		if p == nil {
			panic(runtimePanic(fr.i, "invalid memory address or nil pointer dereference"))
		}
		nre := (*p).(nativeRegexp)
		if name == "MatchString" {
			return ext۰regexp۰Match(fr, []value{args[0], strBytes(args[1])})
		}
		if nre.re == nil {
			panic(abortPath{"inconclusive", "regexp." + name + " on a symbolic pattern"})
		}
		m := reflect.ValueOf(nre.re).MethodByName(name)
		in := make([]reflect.Value, len(args)-1)
		for k, a := range args[1:] {
			g, ok := regexpArg(a, m.Type().In(k))
			if !ok {
				panic(abortPath{"inconclusive", "regexp." + name + " on symbolic text (only Match/MatchString are modelled symbolically)"})
			}
			in[k] = g
		}
		out := m.Call(in)
		switch len(out) {
		case 0:
			return nil
		case 1:
			return regexpResult(out[0])
		}
		t := make(tuple, len(out))
		for k, o := range out {
			t[k] = regexpResult(o)
		}
		return t
	}
}

func regexpArg(a value, want reflect.Type) (reflect.Value, bool) {
	switch want.Kind() {
	case reflect.String:
		if s, ok := a.(string); ok {
			return reflect.ValueOf(s), true
		}
	case reflect.Int:
		if n, ok := a.(int); ok {
			return reflect.ValueOf(n), true
		}
	case reflect.Slice:
		if want.Elem().Kind() == reflect.Uint8 {
			if bs, ok := a.([]value); ok {
				if b, ok := bytesConcrete(bs); ok {
					if bs == nil {
						return reflect.Zero(want), true
					}
					return reflect.ValueOf(b), true
				}
			}
		}
	}
	return reflect.Value{}, false
}

func regexpResult(o reflect.Value) value {
	switch o.Kind() {
	case reflect.String:
		return o.String()
	case reflect.Bool:
		return o.Bool()
	case reflect.Int:
		return int(o.Int())
	case reflect.Uint8:
		return uint8(o.Uint())
	case reflect.Slice:
		if o.IsNil() {
			return []value(nil)
		}
		r := make([]value, o.Len())
		for k := range r {
			r[k] = regexpResult(o.Index(k))
		}
		return r
	}
	panic(engineFault(fmt.Sprintf("regexp result of kind %v", o.Kind())))
}
