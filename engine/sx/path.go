package sx

// Path exploration by re-execution with decision prefixes, and the
// engine-level panic types.

import (
	"fmt"
	"go/types"
	"sort"
	"strconv"
	"strings"
	"time"

	"gosx/smt"
)

// engineFault is an interpreter-internal failure (unsupported construct,
// internal inconsistency). It aborts the path as inconclusive.
type engineFault string

// abortPath ends the current path for an engine-level reason.
type abortPath struct {
	kind string // "infeasible", "inconclusive", "budget", "assume", "stop"
	msg  string
}

// Input is one symbolic input created by an intrinsic, in creation order.
type Input struct {
	Name string
	Kind string // bool,int8,...,float64,bytes(len),choose
	Term *smt.Term
	Len  int // for strings/bytes: number of byte vars following (informational)
}

// Outcome of one explored path.
type PathResult struct {
	Prefix     []int32
	Trace      []int32
	Status     string // "ok", "violation", "panic", "inconclusive", "infeasible", "budget"
	Label      string // assertion label / panic text / reason
	Model      map[string]uint64
	Inputs     []Input
	Covers     []string
	Steps      int64
	Decisions  int
	NewWork    [][]int32
	Events     []string
	Observed   []string // vObserve outputs (concrete under model where available)
	PanicValue string
	Stack      string
}

type pathState struct {
	prefix   []int32
	pos      int
	trace    []int32
	pc       []*smt.Term
	newWork  [][]int32
	inputs   []Input
	covers   map[string]bool
	events   []string
	observed []string
	steps    int64
	nvars    int
	unknowns int
	known    map[int]bool // atoms (term ids) decided on this path
	uf       map[string]*smt.Term // uninterpreted environment results on this path
	usedUF   bool
	pools    map[*value][]value // sync.Pool contents on this path
	wlock    int                // write locks currently held (Mutex.Lock, RWMutex.Lock, inside Once.Do)
	syncMaps map[*value]*smap
	// violation found mid-path (assert); path stops at first
}

const (
	defaultStepBudget = 20_000_000
)

func (i *interpreter) resetPath(prefix []int32) {
	i.ps = &pathState{prefix: prefix, covers: map[string]bool{}}
	i.sol.Reset()
}

func (i *interpreter) assertPC(t *smt.Term) {
	i.ps.pc = append(i.ps.pc, t)
	i.sol.Assert(t)
}

// decide resolves a symbolic branch condition, forking the exploration.
func (i *interpreter) decide(cond *smt.Term, why string) bool {
	if cond.IsConst() {
		return cond.C == 1
	}
	ps := i.ps
	// an atom already decided on this path is not asked again
	atom, pol := cond, true
	if cond.Op == "not" {
		atom, pol = cond.Args[0], false
	}
	if v, ok := ps.known[atom.ID]; ok {
		return v == pol
	}
	defer func() {
		if len(ps.trace) > 0 {
			if ps.known == nil {
				ps.known = map[int]bool{}
			}
		}
	}()
	if ps.pos < len(ps.prefix) {
		d := ps.prefix[ps.pos]
		ps.pos++
		ps.trace = append(ps.trace, d)
		if d == 1 {
			i.assertPC(cond)
		} else {
			i.assertPC(smt.Not(cond))
		}
		i.learn(atom, (d == 1) == pol)
		return d == 1
	}
	i.stats.Decisions++
	if ps.unknowns > maxUnknownsPerPath {
		panic(abortPath{"inconclusive", "the solver answered unknown more than " + strconv.Itoa(maxUnknownsPerPath) + " times on this path"})
	}
	if !i.deadline.IsZero() && time.Now().After(i.deadline.Add(30*time.Second)) {
		panic(abortPath{"budget", "harness deadline reached inside a path"})
	}
	rt := i.sol.CheckWith(cond)
	var rf smt.Result
	if rt == smt.Unsat {
		rf = smt.Sat // PC is satisfiable by invariant
	} else {
		rf = i.sol.CheckWith(smt.Not(cond))
	}
	if rt == smt.Unknown {
		ps.unknowns++
	}
	if rf == smt.Unknown {
		ps.unknowns++
	}
	if rt == smt.Unsat && rf == smt.Unsat {
		panic(abortPath{"infeasible", "both sides unsat at " + why})
	}
	take := rt != smt.Unsat
	if rt != smt.Unsat && rf != smt.Unsat {
		alt := append(append([]int32{}, ps.trace...), 0)
		ps.newWork = append(ps.newWork, alt)
	}
	ps.pos++
	if take {
		ps.trace = append(ps.trace, 1)
		i.assertPC(cond)
	} else {
		ps.trace = append(ps.trace, 0)
		i.assertPC(smt.Not(cond))
	}
	i.learn(atom, take == pol)
	return take
}

// learn records the truth value of an atom on this path (and of the
// conjuncts / disjuncts it determines).
func (i *interpreter) learn(atom *smt.Term, val bool) {
	ps := i.ps
	if ps.known == nil {
		ps.known = map[int]bool{}
	}
	ps.known[atom.ID] = val
	switch {
	case atom.Op == "and" && val:
		for _, a := range atom.Args {
			i.learnLit(a, true)
		}
	case atom.Op == "or" && !val:
		for _, a := range atom.Args {
			i.learnLit(a, false)
		}
	}
}

func (i *interpreter) learnLit(t *smt.Term, val bool) {
	if t.Op == "not" {
		i.learn(t.Args[0], !val)
		return
	}
	i.learn(t, val)
}

// choose makes an n-way nondeterministic choice (all alternatives feasible).
func (i *interpreter) choose(n int, why string) int {
	if n <= 1 {
		return 0
	}
	ps := i.ps
	if ps.pos < len(ps.prefix) {
		d := ps.prefix[ps.pos]
		ps.pos++
		ps.trace = append(ps.trace, d)
		return int(d)
	}
	for k := n - 1; k >= 1; k-- {
		alt := append(append([]int32{}, ps.trace...), int32(k))
		ps.newWork = append(ps.newWork, alt)
	}
	ps.pos++
	ps.trace = append(ps.trace, 0)
	return 0
}

// concretizeRange forks over the values lo..hi-1 of an integer term, returning
// the chosen concrete value; ok=false if the term lies outside the range on this path.
func (i *interpreter) concretizeRange(t *smt.Term, signed bool, lo, hi int64, why string) (int64, bool) {
	if t.IsConst() {
		v := int64(t.C)
		if signed {
			v = sextInt(t.C, t.S.W)
		}
		return v, v >= lo && v < hi
	}
	w := t.S.W
	for v := lo; v < hi; v++ {
		if i.decide(smt.Eq(t, smt.BVC(w, uint64(v))), why) {
			return v, true
		}
	}
	return 0, false
}

func sextInt(v uint64, w int) int64 {
	if w >= 64 {
		return int64(v)
	}
	sh := uint(64 - w)
	return int64(v<<sh) >> sh
}

// newVar creates a fresh symbolic input variable.
func (i *interpreter) newVar(kind string, s smt.Sort) *smt.Term {
	ps := i.ps
	name := fmt.Sprintf("in%d_%s", ps.nvars, kind)
	ps.nvars++
	t := smt.Var(name, s)
	ps.inputs = append(ps.inputs, Input{Name: name, Kind: kind, Term: t})
	return t
}

func (i *interpreter) inputVars() []*smt.Term {
	var vs []*smt.Term
	for _, in := range i.ps.inputs {
		if in.Term != nil {
			vs = append(vs, in.Term)
		}
	}
	return vs
}

// violation is raised (as a Go panic) when an assertion can fail or a
// target panic escapes; it carries the model.
type violation struct {
	label string
	model map[string]uint64
	kind  string // "assert" | "panic"
	pv    string
}

// vAssert implementation.
func (i *interpreter) assertProp(cond value, label string) {
	switch c := cond.(type) {
	case bool:
		if c {
			return
		}
		m, r := i.sol.ModelWith(smt.True, i.inputVars())
		if r == smt.Sat {
			panic(violation{label: label, model: m, kind: "assert"})
		}
		if r == smt.Unsat {
			panic(abortPath{"infeasible", "assert on infeasible path"})
		}
		panic(abortPath{"inconclusive", "solver unknown at failing concrete assert " + label})
	case *Sym:
		i.stats.AssertQueries++
		m, r := i.sol.ModelWith(smt.Not(c.T), i.inputVars())
		switch r {
		case smt.Sat:
			panic(violation{label: label, model: m, kind: "assert"})
		case smt.Unknown:
			panic(abortPath{"inconclusive", "solver unknown at assert " + label + " " + i.sol.LastErr})
		}
		i.assertPC(c.T) // holds on this path from here on
	default:
		panic(engineFault(fmt.Sprintf("vAssert on %T", cond)))
	}
}

func (i *interpreter) assume(cond value) {
	switch c := cond.(type) {
	case bool:
		if !c {
			panic(abortPath{"assume", ""})
		}
	case *Sym:
		r := i.sol.CheckWith(c.T)
		if r == smt.Unsat {
			panic(abortPath{"assume", ""})
		}
		if r == smt.Unknown {
			i.ps.unknowns++
		}
		i.assertPC(c.T)
	default:
		panic(engineFault(fmt.Sprintf("vAssume on %T", cond)))
	}
}

// maxUnknownsPerPath: a path on which the solver keeps timing out is given up
// (inconclusive) instead of paying the time limit at every further branch.
const maxUnknownsPerPath = 8

func traceKey(t []int32) string {
	var sb strings.Builder
	for _, d := range t {
		fmt.Fprintf(&sb, "%d.", d)
	}
	return sb.String()
}

func sortedKeys(m map[string]bool) []string {
	var ks []string
	for k := range m {
		ks = append(ks, k)
	}
	sort.Strings(ks)
	return ks
}

var _ = types.Bool
