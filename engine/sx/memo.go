package sx

// Memoisation of pure subject functions on concrete arguments. The first call
// of CreateEvaluator(expr) with a concrete expression and no options executes
// the real code; later calls (on this worker, in this run) receive a deep copy
// of that result. Only successful results (nil error) are memoised; results
// reference freshly allocated cells only.

import (
	"golang.org/x/tools/go/ssa"
)

var memoFns = map[string]bool{
	"github.com/hashicorp/go-bexpr.CreateEvaluator": true,
}

type memoEntry struct {
	result value
	counts map[*ssa.Function]int64
}

func (i *interpreter) memoKey(fn *ssa.Function, args []value) (string, bool) {
	if !i.memoOn || len(args) != 2 || !i.eng.funcInfoOf(fn).memo {
		return "", false
	}
	s, ok := args[0].(string)
	if !ok {
		return "", false
	}
	if opts, ok := args[1].([]value); !ok || len(opts) != 0 {
		return "", false
	}
	return i.eng.funcInfoOf(fn).name + "\x00" + s, true
}

type copier struct {
	ptrs   map[*value]*value
	slices map[*value][]value // keyed by address of element 0 of the full-capacity slice
	maps   map[*smap]*smap
	ok     bool
}

func deepCopy(v value) (value, bool) {
	c := &copier{ptrs: map[*value]*value{}, slices: map[*value][]value{}, maps: map[*smap]*smap{}, ok: true}
	out := c.copy(v)
	return out, c.ok
}

func (c *copier) copy(v value) value {
	switch x := v.(type) {
	case nil, bool, int, int8, int16, int32, int64, uint, uint8, uint16, uint32, uint64, uintptr, float32, float64, complex64, complex128, string, rtype:
		return x
	case *value:
		if x == nil {
			return x
		}
		if p, ok := c.ptrs[x]; ok {
			return p
		}
		p := new(value)
		c.ptrs[x] = p
		*p = c.copy(*x)
		return p
	case []value:
		if x == nil {
			return x
		}
		if cap(x) == 0 {
			return []value{}
		}
		full := x[:cap(x)]
		key := &full[0]
		if s, ok := c.slices[key]; ok {
			return s[:len(x):cap(x)]
		}
		n := make([]value, cap(x))
		c.slices[key] = n
		for k := range full {
			n[k] = c.copy(full[k])
		}
		return n[:len(x):cap(x)]
	case structure:
		n := make(structure, len(x))
		for k := range x {
			n[k] = c.copy(x[k])
		}
		return n
	case array:
		n := make(array, len(x))
		for k := range x {
			n[k] = c.copy(x[k])
		}
		return n
	case tuple:
		n := make(tuple, len(x))
		for k := range x {
			n[k] = c.copy(x[k])
		}
		return n
	case iface:
		return iface{x.t, c.copy(x.v)}
	case *smap:
		if x == nil {
			return x
		}
		if m, ok := c.maps[x]; ok {
			return m
		}
		m := &smap{kt: x.kt, idx: map[value]int{}, nsym: x.nsym}
		c.maps[x] = m
		for k := range x.keys {
			kk := c.copy(x.keys[k])
			m.keys = append(m.keys, kk)
			m.vals = append(m.vals, c.copy(x.vals[k]))
			if indexable(kk) {
				m.idx[kk] = k
			}
		}
		return m
	case *ssa.Function, *ssa.Builtin:
		return x
	case *closure:
		if x == nil {
			return x
		}
		n := &closure{Fn: x.Fn, Env: make([]value, len(x.Env))}
		for k := range x.Env {
			n.Env[k] = c.copy(x.Env[k])
		}
		return n
	}
	// symbolic values, channels, native handles: not memoisable
	c.ok = false
	return v
}
