package sx

// Harness intrinsics: bodyless functions declared in the harness overlay
// (vBool, vInt64, vString, vAssert, ...) and intercepted by name.

import (
	"fmt"
	"go/types"
	"os"
	"strings"

	"gosx/smt"
)

var intrinsics map[string]externalFn

func scalarIntrinsic(kind string, k types.BasicKind) externalFn {
	return func(fr *frame, args []value) value {
		t := fr.i.newVar(kind, kindSort(k))
		return &Sym{T: t, K: k}
	}
}

func init() {
	intrinsics = map[string]externalFn{
		"vBool":    scalarIntrinsic("bool", types.Bool),
		"vInt":     scalarIntrinsic("int", types.Int),
		"vInt8":    scalarIntrinsic("int8", types.Int8),
		"vInt16":   scalarIntrinsic("int16", types.Int16),
		"vInt32":   scalarIntrinsic("int32", types.Int32),
		"vInt64":   scalarIntrinsic("int64", types.Int64),
		"vUint":    scalarIntrinsic("uint", types.Uint),
		"vUint8":   scalarIntrinsic("uint8", types.Uint8),
		"vUint16":  scalarIntrinsic("uint16", types.Uint16),
		"vUint32":  scalarIntrinsic("uint32", types.Uint32),
		"vUint64":  scalarIntrinsic("uint64", types.Uint64),
		"vFloat32": scalarIntrinsic("float32", types.Float32),
		"vFloat64": scalarIntrinsic("float64", types.Float64),
		"vByte":    scalarIntrinsic("uint8", types.Uint8),

		"vString":  intrString,
		"vStringN": intrStringN,
		"vBytes":   func(fr *frame, a []value) value { return append([]value{}, strBytesOrEmpty(intrString(fr, a))...) },
		"vBytesN":  func(fr *frame, a []value) value { return append([]value{}, strBytesOrEmpty(intrStringN(fr, a))...) },
		"vChoose":  intrChoose,
		"vAssume":  func(fr *frame, a []value) value { fr.i.assume(a[0]); return nil },
		"vAssert":  intrAssert,
		"vCover":   func(fr *frame, a []value) value { fr.i.ps.covers[a[0].(string)] = true; return nil },
		"vTier":    func(fr *frame, a []value) value { return fr.i.tier },
		"vSeed":    func(fr *frame, a []value) value { return int(fr.i.seed) },
		"vAST":     intrAST,
		"vCalls":   intrCalls,
		"vMapOrder": func(fr *frame, a []value) value {
			fr.i.symMapOrder = a[0].(int)
			return nil
		},
		"vMonitorStart": intrMonitorStart,
		"vMonitorStop":  intrMonitorStop,
		"vSyncEvents":   intrSyncEvents,
		"vNote": func(fr *frame, a []value) value {
			if s, ok := a[0].(string); ok {
				fr.i.ps.observed = append(fr.i.ps.observed, s)
			}
			return nil
		},
		"vDebug": func(fr *frame, a []value) value {
			for _, x := range a[0].([]value) {
				ifc := x.(iface)
				if s, ok := callMethod0(fr, ifc, "Error"); ok {
					fmt.Fprintf(os.Stderr, "[vDebug] error: %s\n", toString(s))
					continue
				}
				fmt.Fprintf(os.Stderr, "[vDebug] %s\n", toString(x))
			}
			return nil
		},
		"vConcurrent": func(fr *frame, a []value) value { return nil }, // native only: runs f in n goroutines under -race
		"vIsSymbolic": func(fr *frame, a []value) value { return true },
		"vFail": func(fr *frame, a []value) value {
			fr.i.assertProp(false, a[0].(string))
			return nil
		},
	}
}

func strBytesOrEmpty(v value) []value {
	if s, ok := v.(string); ok && s == "" {
		return []value{}
	}
	return strBytes(v)
}

// vString(max): symbolic string of every length 0..max.
func intrString(fr *frame, args []value) value {
	max := args[0].(int)
	n := fr.i.choose(max+1, "vString-len")
	fr.i.ps.inputs = append(fr.i.ps.inputs, Input{Name: fmt.Sprintf("len%d", len(fr.i.ps.inputs)), Kind: "len", Len: n})
	return freshStr(fr.i, n)
}

// vStringN(n): symbolic string of exactly n bytes.
func intrStringN(fr *frame, args []value) value {
	return freshStr(fr.i, args[0].(int))
}

func freshStr(i *interpreter, n int) value {
	if n == 0 {
		return ""
	}
	b := make([]value, n)
	for k := range b {
		b[k] = &Sym{T: i.newVar("uint8", smt.BV(8)), K: types.Uint8}
	}
	return &SymStr{B: b}
}

func intrChoose(fr *frame, args []value) value {
	n := args[0].(int)
	c := fr.i.choose(n, "vChoose")
	fr.i.ps.inputs = append(fr.i.ps.inputs, Input{Name: fmt.Sprintf("choose%d", len(fr.i.ps.inputs)), Kind: "choose", Len: c})
	return c
}

func intrAssert(fr *frame, args []value) value {
	label, _ := args[1].(string)
	fr.i.assertProp(args[0], label)
	return nil
}

// vAST(ev): the field of interface type "Expression" inside *ev, whatever its name.
func intrAST(fr *frame, args []value) value {
	p := args[0].(*value)
	if p == nil {
		panic(runtimePanic(fr.i, "invalid memory address or nil pointer dereference"))
	}
	pt := fr.fn.Signature.Params().At(0).Type().Underlying().(*types.Pointer)
	st := pt.Elem().Underlying().(*types.Struct)
	for k := 0; k < st.NumFields(); k++ {
		if n, ok := st.Field(k).Type().(*types.Named); ok && n.Obj().Name() == "Expression" {
			return (*p).(structure)[k]
		}
	}
	panic(engineFault("vAST: no field of type Expression"))
}

// vCalls(suffix): number of calls so far on this path to functions whose
// full name ends with suffix (e.g. "(*parser).parseExpr").
func intrCalls(fr *frame, args []value) value {
	suffix := args[0].(string)
	var n int64
	for fn, c := range fr.i.fnCount {
		if strings.HasSuffix(fn.String(), suffix) {
			n += c
		}
	}
	return int(n)
}

func intrSyncEvents(fr *frame, args []value) value {
	n := 0
	for _, e := range fr.i.ps.events {
		if strings.HasPrefix(e, "sync:") {
			n++
		}
	}
	return n
}
