package sx

import (
	"regexp"
	"testing"

	"gosx/smt"
)

// The symbolic matcher, fed concrete bytes, folds to a constant that must be
// what package regexp answers: all subjects up to length 4 over an alphabet
// with ASCII, newline, a word/non-word pair, a two-byte rune and an invalid byte.
func TestNFAAgainstRegexp(t *testing.T) {
	pats := []string{
		"", "a", "ab", "^a", "a$", "^a$", "^$", "a|b", "a*", "a+b", "(ab)+", "a?b", "[a-c]", "[^a]", ".", "^.$", "(?i)A", "(?i)k", "(?s).", "a.b", "(?m)^b", "(?m)a$",
		`\bb`, `a\b`, `\Ba`, `\w+`, `\W`, `\d`, `\s`, "é", "[é-ë]", "(a|b)*c", "(a*)*b", "a{2}", "a{1,2}b", "^(a|ab)(c|bcd)$", `\x{FFFD}`, "[[:alpha:]]", "(?i)é", "x*", "^x*$", `\pL`, `[^\n]`, "(?U)a+", "a??b",
	}
	alpha := []byte{'a', 'b', 'c', 'A', '\n', ' ', '_', '1', 0xc3, 0xa9, 0xff, 'K'}
	var subj [][]byte
	var gen func(cur []byte, n int)
	gen = func(cur []byte, n int) {
		subj = append(subj, append([]byte(nil), cur...))
		if n == 0 {
			return
		}
		for _, c := range alpha {
			gen(append(cur, c), n-1)
		}
	}
	gen(nil, 3)
	subj = append(subj, []byte("abcd"), []byte("aabb"), []byte("a\nb\n"), []byte("\xc3\xa9\xc3\xab"), []byte("abcd\xc3"), []byte("\xe2\x84\xaa")) // U+212A KELVIN SIGN
	i := &interpreter{}
	for _, p := range pats {
		re := regexp.MustCompile(p)
		for _, s := range subj {
			vs := make([]value, len(s))
			for k, c := range s {
				vs[k] = c
			}
			got, ok := i.reMatchTerm(p, false, vs)
			if !ok {
				t.Fatalf("%q on %q: over budget", p, s)
			}
			if !got.IsConst() {
				t.Fatalf("%q on %q: not constant: %s", p, s, got)
			}
			if want := re.Match(s); (got == smt.True) != want {
				t.Fatalf("%q on %q: model %v, regexp %v", p, s, got == smt.True, want)
			}
		}
	}
	t.Logf("%d patterns x %d subjects", len(pats), len(subj))
}
