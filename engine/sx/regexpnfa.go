package sx

// Exact model of (*Regexp).Match on a symbolic subject with a concrete
// pattern: the subject is decoded into runes (decodeRune forks on the UTF-8
// byte classes, so widths are concrete on a path) and the compiled program of
// regexp/syntax — the same program package regexp executes — is simulated as a
// Pike machine whose thread sets carry boolean terms instead of bits. The
// result is one Bool term: "some match exists", which is all Match reports.

import (
	"go/types"
	"regexp/syntax"
	"unicode"

	"gosx/smt"
)

const nfaBudget = 20000 // thread additions per call; beyond it the caller falls back to the uninterpreted result

type nfaSim struct {
	prog  *syntax.Prog
	runes []*smt.Term // 32-bit rune terms
	steps int
	over  bool
}

func r32(v value) *smt.Term {
	switch x := v.(type) {
	case int32:
		return smt.BVC(32, uint64(uint32(x)))
	case *Sym:
		return x.T
	}
	panic(engineFault("rune value"))
}

// reMatchTerm returns (term, true), or (nil, false) when the pattern is too
// large for the budget.
func (i *interpreter) reMatchTerm(pattern string, posix bool, subj []value) (*smt.Term, bool) {
	flags := syntax.Perl
	if posix {
		flags = syntax.POSIX
	}
	re, err := syntax.Parse(pattern, flags)
	if err != nil {
		return nil, false
	}
	prog, err := syntax.Compile(re.Simplify())
	if err != nil {
		return nil, false
	}
	s := &nfaSim{prog: prog}
	if asciiOnlyProg(prog) {
		// no instruction can consume a byte >= 0x80, however it is grouped
		// into runes, and such bytes are non-word and not '\n' either way: the
		// byte-level simulation is equivalent and needs no decoding forks
		for _, b := range subj {
			switch x := b.(type) {
			case uint8:
				s.runes = append(s.runes, smt.BVC(32, uint64(x)))
			default:
				s.runes = append(s.runes, smt.ZeroExt(24, termOf(b)))
			}
		}
	} else {
		for p := 0; p < len(subj); {
			r, w := i.decodeRune(subj[p:])
			s.runes = append(s.runes, r32(r))
			p += w
		}
	}
	n := len(s.runes)
	matched := smt.False
	cur := map[uint32]*smt.Term{}
	var order []uint32
	add := func(set map[uint32]*smt.Term, ord *[]uint32, pc uint32, c *smt.Term) {
		if old, ok := set[pc]; ok {
			set[pc] = smt.Or(old, c)
			return
		}
		set[pc] = c
		*ord = append(*ord, pc)
	}
	var follow func(set map[uint32]*smt.Term, ord *[]uint32, pos int, pc uint32, c *smt.Term, onStack map[uint32]bool)
	follow = func(set map[uint32]*smt.Term, ord *[]uint32, pos int, pc uint32, c *smt.Term, onStack map[uint32]bool) {
		if c == smt.False || onStack[pc] || s.over {
			return
		}
		s.steps++
		if s.steps > nfaBudget {
			s.over = true
			return
		}
		in := &prog.Inst[pc]
		switch in.Op {
		case syntax.InstFail:
		case syntax.InstMatch:
			matched = smt.Or(matched, c)
		case syntax.InstAlt, syntax.InstAltMatch:
			onStack[pc] = true
			follow(set, ord, pos, in.Out, c, onStack)
			follow(set, ord, pos, in.Arg, c, onStack)
			delete(onStack, pc)
		case syntax.InstNop, syntax.InstCapture:
			onStack[pc] = true
			follow(set, ord, pos, in.Out, c, onStack)
			delete(onStack, pc)
		case syntax.InstEmptyWidth:
			onStack[pc] = true
			follow(set, ord, pos, in.Out, smt.And(c, s.emptyCond(pos, syntax.EmptyOp(in.Arg))), onStack)
			delete(onStack, pc)
		default: // rune instructions wait for the next rune
			add(set, ord, pc, c)
		}
	}
	for pos := 0; pos <= n; pos++ {
		// unanchored search: a new thread may start at every position
		follow(cur, &order, pos, uint32(prog.Start), smt.True, map[uint32]bool{})
		if pos == n {
			break
		}
		next := map[uint32]*smt.Term{}
		var nord []uint32
		for _, pc := range order {
			in := &prog.Inst[pc]
			follow(next, &nord, pos+1, in.Out, smt.And(cur[pc], runeCond(in, s.runes[pos])), map[uint32]bool{})
		}
		cur, order = next, nord
	}
	if s.over {
		return nil, false
	}
	return matched, true
}

func asciiOnlyProg(prog *syntax.Prog) bool {
	for k := range prog.Inst {
		in := &prog.Inst[k]
		switch in.Op {
		case syntax.InstRuneAny, syntax.InstRuneAnyNotNL:
			return false
		case syntax.InstRune1, syntax.InstRune:
			for _, r := range in.Rune {
				if r >= 0x80 {
					return false
				}
			}
			if len(in.Rune) == 1 && syntax.Flags(in.Arg)&syntax.FoldCase != 0 {
				for f := unicode.SimpleFold(in.Rune[0]); f != in.Rune[0]; f = unicode.SimpleFold(f) {
					if f >= 0x80 {
						return false
					}
				}
			}
		}
	}
	return true
}

func isWordTerm(r *smt.Term) *smt.Term {
	in := func(lo, hi rune) *smt.Term {
		return smt.And(smt.ULe(smt.BVC(32, uint64(lo)), r), smt.ULe(r, smt.BVC(32, uint64(hi))))
	}
	return smt.Or(in('a', 'z'), in('A', 'Z'), in('0', '9'), smt.Eq(r, smt.BVC(32, '_')))
}

func (s *nfaSim) emptyCond(pos int, op syntax.EmptyOp) *smt.Term {
	n := len(s.runes)
	nl := smt.BVC(32, '\n')
	c := smt.True
	if op&syntax.EmptyBeginText != 0 && pos != 0 {
		return smt.False
	}
	if op&syntax.EmptyEndText != 0 && pos != n {
		return smt.False
	}
	if op&syntax.EmptyBeginLine != 0 && pos != 0 {
		c = smt.And(c, smt.Eq(s.runes[pos-1], nl))
	}
	if op&syntax.EmptyEndLine != 0 && pos != n {
		c = smt.And(c, smt.Eq(s.runes[pos], nl))
	}
	if op&(syntax.EmptyWordBoundary|syntax.EmptyNoWordBoundary) != 0 {
		before, after := smt.False, smt.False
		if pos > 0 {
			before = isWordTerm(s.runes[pos-1])
		}
		if pos < n {
			after = isWordTerm(s.runes[pos])
		}
		boundary := smt.Not(smt.Eq(before, after))
		if op&syntax.EmptyWordBoundary != 0 {
			c = smt.And(c, boundary)
		}
		if op&syntax.EmptyNoWordBoundary != 0 {
			c = smt.And(c, smt.Not(boundary))
		}
	}
	return c
}

// runeCond mirrors syntax.Inst.MatchRunePos for a symbolic rune.
func runeCond(in *syntax.Inst, r *smt.Term) *smt.Term {
	eq := func(c rune) *smt.Term { return smt.Eq(r, smt.BVC(32, uint64(uint32(c)))) }
	switch in.Op {
	case syntax.InstRuneAny:
		return smt.True
	case syntax.InstRuneAnyNotNL:
		return smt.Not(eq('\n'))
	case syntax.InstRune1:
		return eq(in.Rune[0])
	case syntax.InstRune:
		if len(in.Rune) == 1 {
			c := eq(in.Rune[0])
			if syntax.Flags(in.Arg)&syntax.FoldCase != 0 {
				for f := unicode.SimpleFold(in.Rune[0]); f != in.Rune[0]; f = unicode.SimpleFold(f) {
					c = smt.Or(c, eq(f))
				}
			}
			return c
		}
		c := smt.False
		for k := 0; k+1 < len(in.Rune); k += 2 {
			lo, hi := in.Rune[k], in.Rune[k+1]
			if lo == hi {
				c = smt.Or(c, eq(lo))
			} else {
				c = smt.Or(c, smt.And(smt.ULe(smt.BVC(32, uint64(uint32(lo))), r), smt.ULe(r, smt.BVC(32, uint64(uint32(hi))))))
			}
		}
		return c
	}
	return smt.False
}

var _ = types.Int32
