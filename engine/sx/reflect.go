package sx

// Model of package reflect over {types.Type, value, flags}. The documented
// panics of reflect are modelled as target panics (DESIGN.md Appendix C).
// Derived from x/tools/go/ssa/interp/reflect.go (BSD licence), extended.

import (
	"fmt"
	"go/token"
	"go/types"
	"reflect"
	"unsafe"

	"golang.org/x/tools/go/ssa"

	"gosx/smt"
)

type opaqueType struct {
	types.Type
	name string
}

func (t *opaqueType) String() string { return t.name }

var reflectTypesPackage = types.NewPackage("reflect", "reflect")

// rtype is the concrete type implementing reflect.Type.
var rtypeType = makeNamedType("rtype", &opaqueType{nil, "rtype"})

var errorType = makeNamedType("error", &opaqueType{nil, "error"})

func makeNamedType(name string, underlying types.Type) *types.Named {
	obj := types.NewTypeName(token.NoPos, reflectTypesPackage, name, nil)
	return types.NewNamed(obj, underlying, nil)
}

const (
	rflagRO   = 1 // obtained via an unexported struct field
	rflagAddr = 2 // v is a *value pointing at the addressable cell (from New/Elem of pointer)
)

var reflectValueNamed *types.Named

func isReflectValueType(t *types.Named) bool {
	return reflectValueNamed != nil && t == reflectValueNamed
}

func makeReflectValue(t types.Type, v value) value {
	return structure{rtype{t}, v, 0, (*value)(nil)}
}

func makeReflectValueF(t types.Type, v value, flags int) value {
	return structure{rtype{t}, v, flags, (*value)(nil)}
}

func rV2T(v value) rtype     { return v.(structure)[0].(rtype) }
func rV2V(v value) value     { return v.(structure)[1] }
func rV2F(v value) int       { return v.(structure)[2].(int) }

// rV2A is the address of the cell an addressable Value stands for (nil otherwise).
func rV2A(v value) *value {
	s := v.(structure)
	if len(s) < 4 {
		return nil
	}
	a, _ := s[3].(*value)
	return a
}

// withAddr marks a Value as addressable at cell a.
func withAddr(v value, a *value) value {
	s := v.(structure)
	return structure{s[0], s[1], s[2], a}
}
func makeReflectType(rt rtype) value { return iface{rtypeType, rt} }

func reflectPanic(fr *frame, msg string) targetPanic {
	return targetPanic{iface{fr.i.runtimeErrorString, msg}}
}

func kindName(t types.Type) string {
	if t == nil {
		return "invalid"
	}
	return reflectKind(t).String()
}

func valueErr(fr *frame, method string, v value) targetPanic {
	t := rV2T(v).t
	if t == nil {
		return reflectPanic(fr, "reflect: call of "+method+" on zero Value")
	}
	return reflectPanic(fr, "reflect: call of "+method+" on "+kindName(t)+" Value")
}

func reflectKind(t types.Type) reflect.Kind {
	switch t := t.(type) {
	case *types.Named, *types.Alias:
		return reflectKind(t.Underlying())
	case *types.Basic:
		switch t.Kind() {
		case types.Bool:
			return reflect.Bool
		case types.Int:
			return reflect.Int
		case types.Int8:
			return reflect.Int8
		case types.Int16:
			return reflect.Int16
		case types.Int32:
			return reflect.Int32
		case types.Int64:
			return reflect.Int64
		case types.Uint:
			return reflect.Uint
		case types.Uint8:
			return reflect.Uint8
		case types.Uint16:
			return reflect.Uint16
		case types.Uint32:
			return reflect.Uint32
		case types.Uint64:
			return reflect.Uint64
		case types.Uintptr:
			return reflect.Uintptr
		case types.Float32:
			return reflect.Float32
		case types.Float64:
			return reflect.Float64
		case types.Complex64:
			return reflect.Complex64
		case types.Complex128:
			return reflect.Complex128
		case types.String:
			return reflect.String
		case types.UnsafePointer:
			return reflect.UnsafePointer
		}
	case *types.Array:
		return reflect.Array
	case *types.Chan:
		return reflect.Chan
	case *types.Signature:
		return reflect.Func
	case *types.Interface:
		return reflect.Interface
	case *types.Map:
		return reflect.Map
	case *types.Pointer:
		return reflect.Pointer
	case *types.Slice:
		return reflect.Slice
	case *types.Struct:
		return reflect.Struct
	}
	panic(engineFault(fmt.Sprint("unexpected type: ", t)))
}

// ---- reflect.Type methods

func ext۰reflect۰rtype۰Bits(fr *frame, args []value) value {
	rt := args[0].(rtype).t
	basic, ok := rt.Underlying().(*types.Basic)
	if !ok {
		panic(reflectPanic(fr, fmt.Sprintf("reflect.Type.Bits(%T): non-basic type", rt)))
	}
	return int(fr.i.sizes.Sizeof(basic)) * 8
}

func ext۰reflect۰rtype۰Elem(fr *frame, args []value) value {
	switch t := args[0].(rtype).t.Underlying().(type) {
	case *types.Array:
		return makeReflectType(rtype{t.Elem()})
	case *types.Chan:
		return makeReflectType(rtype{t.Elem()})
	case *types.Map:
		return makeReflectType(rtype{t.Elem()})
	case *types.Pointer:
		return makeReflectType(rtype{t.Elem()})
	case *types.Slice:
		return makeReflectType(rtype{t.Elem()})
	}
	panic(reflectPanic(fr, "reflect: Elem of invalid type "+args[0].(rtype).t.String()))
}

func ext۰reflect۰rtype۰Key(fr *frame, args []value) value {
	if t, ok := args[0].(rtype).t.Underlying().(*types.Map); ok {
		return makeReflectType(rtype{t.Key()})
	}
	panic(reflectPanic(fr, "reflect: Key of non-map type "+args[0].(rtype).t.String()))
}

func ext۰reflect۰rtype۰Len(fr *frame, args []value) value {
	if t, ok := args[0].(rtype).t.Underlying().(*types.Array); ok {
		return int(t.Len())
	}
	panic(reflectPanic(fr, "reflect: Len of non-array type "+args[0].(rtype).t.String()))
}

func ext۰reflect۰rtype۰Field(fr *frame, args []value) value {
	st, ok := args[0].(rtype).t.Underlying().(*types.Struct)
	if !ok {
		panic(reflectPanic(fr, "reflect: Field of non-struct type "+args[0].(rtype).t.String()))
	}
	i := args[1].(int)
	if i < 0 || i >= st.NumFields() {
		panic(reflectPanic(fr, "reflect: Field index out of bounds"))
	}
	f := st.Field(i)
	pkgPath := ""
	if !f.Exported() && f.Pkg() != nil {
		pkgPath = f.Pkg().Path()
	}
	// reflect.StructField{Name, PkgPath, Type, Tag, Offset, Index, Anonymous}
	return structure{
		f.Name(),
		pkgPath,
		makeReflectType(rtype{f.Type()}),
		st.Tag(i),
		uintptr(0),
		[]value{i},
		f.Anonymous(),
	}
}

func ext۰reflect۰rtype۰Kind(fr *frame, args []value) value {
	return uint(reflectKind(args[0].(rtype).t))
}

func ext۰reflect۰rtype۰NumField(fr *frame, args []value) value {
	st, ok := args[0].(rtype).t.Underlying().(*types.Struct)
	if !ok {
		panic(reflectPanic(fr, "reflect: NumField of non-struct type "+args[0].(rtype).t.String()))
	}
	return st.NumFields()
}

func ext۰reflect۰rtype۰NumMethod(fr *frame, args []value) value {
	return fr.i.prog.MethodSets.MethodSet(args[0].(rtype).t).Len()
}

func typeString(t types.Type) string {
	return types.TypeString(t, func(p *types.Package) string { return p.Name() })
}

func ext۰reflect۰rtype۰String(fr *frame, args []value) value {
	return typeString(args[0].(rtype).t)
}

func ext۰reflect۰rtype۰Name(fr *frame, args []value) value {
	switch t := args[0].(rtype).t.(type) {
	case *types.Named:
		return t.Obj().Name()
	case *types.Basic:
		return t.Name()
	}
	return ""
}

func ext۰reflect۰rtype۰PkgPath(fr *frame, args []value) value {
	if t, ok := args[0].(rtype).t.(*types.Named); ok && t.Obj().Pkg() != nil {
		return t.Obj().Pkg().Path()
	}
	return ""
}

func ext۰reflect۰rtype۰ConvertibleTo(fr *frame, args []value) value {
	u := args[1].(iface).v.(rtype).t
	return types.ConvertibleTo(args[0].(rtype).t, u)
}

func ext۰reflect۰rtype۰AssignableTo(fr *frame, args []value) value {
	u := args[1].(iface).v.(rtype).t
	return types.AssignableTo(args[0].(rtype).t, u)
}

func ext۰reflect۰rtype۰Comparable(fr *frame, args []value) value {
	return types.Comparable(args[0].(rtype).t)
}

func ext۰reflect۰rtype۰Implements(fr *frame, args []value) value {
	u := args[1].(iface).v.(rtype).t
	it, ok := u.Underlying().(*types.Interface)
	if !ok {
		panic(reflectPanic(fr, "reflect: non-interface type passed to Type.Implements"))
	}
	return types.Implements(args[0].(rtype).t, it)
}

// ---- package-level functions

func ext۰reflect۰New(fr *frame, args []value) value {
	t := args[0].(iface).v.(rtype).t
	alloc := zero(t)
	return makeReflectValue(types.NewPointer(t), &alloc)
}

func ext۰reflect۰SliceOf(fr *frame, args []value) value {
	return makeReflectType(rtype{types.NewSlice(args[0].(iface).v.(rtype).t)})
}

func ext۰reflect۰TypeOf(fr *frame, args []value) value {
	t := args[0].(iface).t
	if t == nil {
		return iface{} // nil reflect.Type
	}
	return makeReflectType(rtype{t})
}

func ext۰reflect۰ValueOf(fr *frame, args []value) value {
	itf := args[0].(iface)
	return makeReflectValue(itf.t, itf.v)
}

func ext۰reflect۰Zero(fr *frame, args []value) value {
	t := args[0].(iface).v.(rtype).t
	return makeReflectValue(t, zero(t))
}

func ext۰reflect۰Indirect(fr *frame, args []value) value {
	v := args[0]
	t := rV2T(v).t
	if t == nil {
		return v
	}
	if _, ok := t.Underlying().(*types.Pointer); !ok {
		return v
	}
	return reflectElem(fr, v)
}

func ext۰reflect۰MakeSlice(fr *frame, args []value) value {
	t := args[0].(iface).v.(rtype).t
	st, ok := t.Underlying().(*types.Slice)
	if !ok {
		panic(reflectPanic(fr, "reflect.MakeSlice of non-slice type"))
	}
	ln, cp := args[1].(int), args[2].(int)
	if ln < 0 || cp < ln {
		panic(reflectPanic(fr, "reflect.MakeSlice: len > cap or negative"))
	}
	s := make([]value, cp)
	for k := range s {
		s[k] = zero(st.Elem())
	}
	return makeReflectValue(t, s[:ln])
}

func ext۰reflect۰MakeMap(fr *frame, args []value) value {
	t := args[0].(iface).v.(rtype).t
	mt, ok := t.Underlying().(*types.Map)
	if !ok {
		panic(reflectPanic(fr, "reflect.MakeMap of non-map type"))
	}
	return makeReflectValue(t, makeMap(mt.Key(), 0))
}

func ext۰reflect۰Append(fr *frame, args []value) value {
	s := args[0]
	t := rV2T(s).t
	if t == nil {
		panic(valueErr(fr, "reflect.Append", s))
	}
	st, ok := t.Underlying().(*types.Slice)
	if !ok {
		panic(valueErr(fr, "reflect.Append", s))
	}
	out := rV2V(s).([]value)
	for _, e := range args[1].([]value) {
		et := rV2T(e).t
		if et == nil {
			panic(reflectPanic(fr, "reflect: call of reflect.Value.Set on zero Value"))
		}
		if rV2F(e)&rflagRO != 0 {
			panic(reflectPanic(fr, "reflect: reflect.Value.Set using value obtained using unexported field"))
		}
		if !types.AssignableTo(et, st.Elem()) {
			panic(reflectPanic(fr, "reflect.Set: value of type "+typeString(et)+" is not assignable to type "+typeString(st.Elem())))
		}
		ev := rV2V(e)
		if _, isI := st.Elem().Underlying().(*types.Interface); isI {
			if _, srcI := et.Underlying().(*types.Interface); !srcI {
				ev = iface{et, ev}
			}
		}
		if fr.i.mon != nil {
			fr.i.mon.onAppend(fr, out, 1)
		}
		out = append(out, copyVal(ev))
	}
	return makeReflectValue(t, out)
}

// copyVal copies aggregate values (structs, arrays) so that cells are not shared.
func copyVal(v value) value {
	switch v := v.(type) {
	case structure:
		c := make(structure, len(v))
		for k := range v {
			c[k] = copyVal(v[k])
		}
		return c
	case array:
		c := make(array, len(v))
		for k := range v {
			c[k] = copyVal(v[k])
		}
		return c
	}
	return v
}

// ---- reflect.Value methods

func ext۰reflect۰Value۰Kind(fr *frame, args []value) value {
	t := rV2T(args[0]).t
	if t == nil {
		return uint(reflect.Invalid)
	}
	return uint(reflectKind(t))
}

func ext۰reflect۰Value۰String(fr *frame, args []value) value {
	t := rV2T(args[0]).t
	if t == nil {
		return "<invalid Value>"
	}
	if reflectKind(t) == reflect.String {
		return rV2V(args[0])
	}
	return "<" + typeString(t) + " Value>"
}

func ext۰reflect۰Value۰Type(fr *frame, args []value) value {
	t := rV2T(args[0]).t
	if t == nil {
		panic(valueErr(fr, "reflect.Value.Type", args[0]))
	}
	return makeReflectType(rV2T(args[0]))
}

func ext۰reflect۰Value۰Uint(fr *frame, args []value) value {
	t := rV2T(args[0]).t
	if t == nil {
		panic(valueErr(fr, "reflect.Value.Uint", args[0]))
	}
	switch reflectKind(t) {
	case reflect.Uint, reflect.Uint8, reflect.Uint16, reflect.Uint32, reflect.Uint64, reflect.Uintptr:
		v := rV2V(args[0])
		if s, ok := v.(*Sym); ok {
			return symConvScalar(s, types.Uint64)
		}
		return uint64(asInt64(v))
	}
	panic(valueErr(fr, "reflect.Value.Uint", args[0]))
}

func ext۰reflect۰Value۰Int(fr *frame, args []value) value {
	t := rV2T(args[0]).t
	if t == nil {
		panic(valueErr(fr, "reflect.Value.Int", args[0]))
	}
	switch reflectKind(t) {
	case reflect.Int, reflect.Int8, reflect.Int16, reflect.Int32, reflect.Int64:
		v := rV2V(args[0])
		if s, ok := v.(*Sym); ok {
			return symConvScalar(s, types.Int64)
		}
		return asInt64(v)
	}
	panic(valueErr(fr, "reflect.Value.Int", args[0]))
}

func ext۰reflect۰Value۰Float(fr *frame, args []value) value {
	t := rV2T(args[0]).t
	if t == nil {
		panic(valueErr(fr, "reflect.Value.Float", args[0]))
	}
	switch reflectKind(t) {
	case reflect.Float32, reflect.Float64:
		switch v := rV2V(args[0]).(type) {
		case float32:
			return float64(v)
		case float64:
			return v
		case *Sym:
			return symConvScalar(v, types.Float64)
		}
	}
	panic(valueErr(fr, "reflect.Value.Float", args[0]))
}

func ext۰reflect۰Value۰Bool(fr *frame, args []value) value {
	t := rV2T(args[0]).t
	if t == nil || reflectKind(t) != reflect.Bool {
		panic(valueErr(fr, "reflect.Value.Bool", args[0]))
	}
	return rV2V(args[0])
}

func ext۰reflect۰Value۰Len(fr *frame, args []value) value {
	t := rV2T(args[0]).t
	if t == nil {
		panic(valueErr(fr, "reflect.Value.Len", args[0]))
	}
	switch v := rV2V(args[0]).(type) {
	case string:
		return len(v)
	case *SymStr:
		return len(v.B)
	case array:
		return len(v)
	case chan value:
		return len(v)
	case []value:
		return len(v)
	case *smap:
		return v.len()
	case *value:
		if pt, ok := t.Underlying().(*types.Pointer); ok {
			if at, ok := pt.Elem().Underlying().(*types.Array); ok {
				return int(at.Len())
			}
		}
	}
	panic(valueErr(fr, "reflect.Value.Len", args[0]))
}

func ext۰reflect۰Value۰Cap(fr *frame, args []value) value {
	switch v := rV2V(args[0]).(type) {
	case array:
		return len(v)
	case []value:
		return cap(v)
	case chan value:
		return cap(v)
	}
	panic(valueErr(fr, "reflect.Value.Cap", args[0]))
}

func ext۰reflect۰Value۰MapIndex(fr *frame, args []value) value {
	t := rV2T(args[0]).t
	if t == nil {
		panic(valueErr(fr, "reflect.Value.MapIndex", args[0]))
	}
	mt, ok := t.Underlying().(*types.Map)
	if !ok {
		panic(valueErr(fr, "reflect.Value.MapIndex", args[0]))
	}
	kt := rV2T(args[1]).t
	if kt == nil {
		panic(reflectPanic(fr, "reflect: call of reflect.Value.MapIndex on zero Value key"))
	}
	if !types.AssignableTo(kt, mt.Key()) {
		panic(reflectPanic(fr, "reflect.Value.MapIndex: value of type "+typeString(kt)+" is not assignable to type "+typeString(mt.Key())))
	}
	k := rV2V(args[1])
	if _, isI := mt.Key().Underlying().(*types.Interface); isI {
		if _, srcI := kt.Underlying().(*types.Interface); !srcI {
			k = iface{kt, k}
		}
	}
	m := rV2V(args[0]).(*smap)
	if v, ok := m.lookup(fr.i, k); ok {
		return makeReflectValueF(mt.Elem(), copyVal(v), rV2F(args[0])&rflagRO)
	}
	return makeReflectValue(nil, nil)
}

func ext۰reflect۰Value۰MapKeys(fr *frame, args []value) value {
	t := rV2T(args[0]).t
	if t == nil {
		panic(valueErr(fr, "reflect.Value.MapKeys", args[0]))
	}
	mt, ok := t.Underlying().(*types.Map)
	if !ok {
		panic(valueErr(fr, "reflect.Value.MapKeys", args[0]))
	}
	m := rV2V(args[0]).(*smap)
	var keys []value
	if m != nil {
		var site *ssa.Function
		if fr.caller != nil {
			site = fr.caller.fn
		}
		for _, p := range m.order(fr.i, site) {
			keys = append(keys, makeReflectValueF(mt.Key(), m.keys[p], rV2F(args[0])&rflagRO))
		}
	}
	if keys == nil {
		keys = []value{}
	}
	return keys
}

func ext۰reflect۰Value۰SetMapIndex(fr *frame, args []value) value {
	t := rV2T(args[0]).t
	if t == nil {
		panic(valueErr(fr, "reflect.Value.SetMapIndex", args[0]))
	}
	mt, ok := t.Underlying().(*types.Map)
	if !ok {
		panic(valueErr(fr, "reflect.Value.SetMapIndex", args[0]))
	}
	if rV2F(args[0])&rflagRO != 0 || rV2F(args[1])&rflagRO != 0 || rV2F(args[2])&rflagRO != 0 {
		panic(reflectPanic(fr, "reflect: reflect.Value.SetMapIndex using value obtained using unexported field"))
	}
	kt := rV2T(args[1]).t
	if kt == nil || !types.AssignableTo(kt, mt.Key()) {
		panic(reflectPanic(fr, "reflect.Value.SetMapIndex: key not assignable"))
	}
	m := rV2V(args[0]).(*smap)
	k := rV2V(args[1])
	if _, isI := mt.Key().Underlying().(*types.Interface); isI {
		if _, srcI := kt.Underlying().(*types.Interface); !srcI {
			k = iface{kt, k}
		}
	}
	et := rV2T(args[2]).t
	if fr.i.mon != nil {
		fr.i.mon.onMapWrite(fr, m, nil)
	}
	if et == nil {
		m.delete(fr.i, k)
		return nil
	}
	if !types.AssignableTo(et, mt.Elem()) {
		panic(reflectPanic(fr, "reflect.Value.SetMapIndex: value of type "+typeString(et)+" is not assignable to type "+typeString(mt.Elem())))
	}
	ev := rV2V(args[2])
	if _, isI := mt.Elem().Underlying().(*types.Interface); isI {
		if _, srcI := et.Underlying().(*types.Interface); !srcI {
			ev = iface{et, ev}
		}
	}
	if m == nil {
		panic(reflectPanic(fr, "assignment to entry in nil map"))
	}
	m.insert(fr.i, k, copyVal(ev))
	return nil
}

func ext۰reflect۰Value۰NumField(fr *frame, args []value) value {
	t := rV2T(args[0]).t
	if t != nil {
		if st, ok := t.Underlying().(*types.Struct); ok {
			return st.NumFields()
		}
	}
	panic(valueErr(fr, "reflect.Value.NumField", args[0]))
}

func ext۰reflect۰Value۰NumMethod(fr *frame, args []value) value {
	return fr.i.prog.MethodSets.MethodSet(rV2T(args[0]).t).Len()
}

func ext۰reflect۰Value۰Index(fr *frame, args []value) value {
	t := rV2T(args[0]).t
	if t == nil {
		panic(valueErr(fr, "reflect.Value.Index", args[0]))
	}
	i := args[1].(int)
	fl := rV2F(args[0]) & rflagRO
	switch v := rV2V(args[0]).(type) {
	case array:
		if i < 0 || i >= len(v) {
			panic(reflectPanic(fr, "reflect: array index out of range"))
		}
		ev := makeReflectValueF(t.Underlying().(*types.Array).Elem(), copyVal(v[i]), fl)
		if a := rV2A(args[0]); a != nil { // element of an addressable array is addressable
			if cell, ok := (*a).(array); ok && i < len(cell) {
				ev = withAddr(ev, &cell[i])
			}
		}
		return ev
	case []value:
		if i < 0 || i >= len(v) {
			panic(reflectPanic(fr, "reflect: slice index out of range"))
		}
		return withAddr(makeReflectValueF(t.Underlying().(*types.Slice).Elem(), copyVal(v[i]), fl), &v[i])
	case string, *SymStr:
		b := strBytes(v)
		if i < 0 || i >= len(b) {
			panic(reflectPanic(fr, "reflect: string index out of range"))
		}
		return makeReflectValueF(types.Typ[types.Uint8], b[i], fl)
	}
	panic(valueErr(fr, "reflect.Value.Index", args[0]))
}

func ext۰reflect۰Value۰CanAddr(fr *frame, args []value) value {
	return rV2A(args[0]) != nil
}

func ext۰reflect۰Value۰CanSet(fr *frame, args []value) value {
	return rV2A(args[0]) != nil && rV2F(args[0])&rflagRO == 0
}

func ext۰reflect۰Value۰Set(fr *frame, args []value) value {
	t := rV2T(args[0]).t
	a := rV2A(args[0])
	if t == nil || a == nil {
		panic(reflectPanic(fr, "reflect: reflect.Value.Set using unaddressable value"))
	}
	if rV2F(args[0])&rflagRO != 0 || rV2F(args[1])&rflagRO != 0 {
		panic(reflectPanic(fr, "reflect: reflect.Value.Set using value obtained using unexported field"))
	}
	et := rV2T(args[1]).t
	if et == nil || !types.AssignableTo(et, t) {
		panic(reflectPanic(fr, "reflect.Set: value is not assignable to type "+typeString(t)))
	}
	ev := rV2V(args[1])
	if _, isI := t.Underlying().(*types.Interface); isI {
		if _, srcI := et.Underlying().(*types.Interface); !srcI {
			ev = iface{et, ev}
		}
	}
	if fr.i.mon != nil {
		fr.i.mon.onStore2(fr, a, "reflect.Value.Set")
	}
	store(t, a, copyVal(ev))
	return nil
}

func ext۰reflect۰Value۰CanInterface(fr *frame, args []value) value {
	if rV2T(args[0]).t == nil {
		panic(valueErr(fr, "reflect.Value.CanInterface", args[0]))
	}
	return rV2F(args[0])&rflagRO == 0
}

func reflectElem(fr *frame, v value) value {
	t := rV2T(v).t
	if t == nil {
		panic(valueErr(fr, "reflect.Value.Elem", v))
	}
	fl := rV2F(v) & rflagRO
	switch x := rV2V(v).(type) {
	case iface:
		if _, ok := t.Underlying().(*types.Interface); ok {
			if x.t == nil {
				return makeReflectValue(nil, nil)
			}
			return makeReflectValueF(x.t, x.v, fl)
		}
	case *value:
		if pt, ok := t.Underlying().(*types.Pointer); ok {
			if x == nil {
				return makeReflectValue(nil, nil)
			}
			return withAddr(makeReflectValueF(pt.Elem(), copyVal(load(pt.Elem(), x)), fl), x)
		}
	}
	panic(valueErr(fr, "reflect.Value.Elem", v))
}

func ext۰reflect۰Value۰Elem(fr *frame, args []value) value {
	return reflectElem(fr, args[0])
}

func ext۰reflect۰Value۰Field(fr *frame, args []value) value {
	t := rV2T(args[0]).t
	if t == nil {
		panic(valueErr(fr, "reflect.Value.Field", args[0]))
	}
	st, ok := t.Underlying().(*types.Struct)
	if !ok {
		panic(valueErr(fr, "reflect.Value.Field", args[0]))
	}
	i := args[1].(int)
	if i < 0 || i >= st.NumFields() {
		panic(reflectPanic(fr, "reflect: Field index out of range"))
	}
	fl := rV2F(args[0]) & rflagRO
	if !st.Field(i).Exported() {
		fl |= rflagRO
	}
	fv := makeReflectValueF(st.Field(i).Type(), copyVal(rV2V(args[0]).(structure)[i]), fl)
	if a := rV2A(args[0]); a != nil {
		if sc, ok := (*a).(structure); ok && i < len(sc) {
			fv = withAddr(fv, &sc[i])
		}
	}
	return fv
}

func ext۰reflect۰Value۰Interface(fr *frame, args []value) value {
	return ext۰reflect۰valueInterface(fr, args)
}

func ext۰reflect۰Value۰IsNil(fr *frame, args []value) value {
	if rV2T(args[0]).t == nil {
		panic(valueErr(fr, "reflect.Value.IsNil", args[0]))
	}
	switch x := rV2V(args[0]).(type) {
	case *value:
		return x == nil
	case chan value:
		return x == nil
	case *smap:
		return x == nil
	case []value:
		return x == nil
	case *ssa.Function:
		return x == nil
	case *ssa.Builtin:
		return x == nil
	case *closure:
		return x == nil
	case iface:
		return x.t == nil
	}
	panic(valueErr(fr, "reflect.Value.IsNil", args[0]))
}

func ext۰reflect۰Value۰IsValid(fr *frame, args []value) value {
	return rV2T(args[0]).t != nil
}

func ext۰reflect۰Value۰IsZero(fr *frame, args []value) value {
	t := rV2T(args[0]).t
	if t == nil {
		panic(valueErr(fr, "reflect.Value.IsZero", args[0]))
	}
	v := rV2V(args[0])
	switch x := v.(type) {
	case *value:
		return x == nil
	case *smap:
		return x == nil
	case []value:
		return x == nil
	case iface:
		return x.t == nil
	}
	return boolVal(equalsT(t, v, zero(t)))
}

func ext۰reflect۰valueInterface(fr *frame, args []value) value {
	v := args[0].(structure)
	t := rV2T(v).t
	if t == nil {
		panic(valueErr(fr, "reflect.Value.Interface", v))
	}
	if rV2F(v)&rflagRO != 0 {
		panic(reflectPanic(fr, "reflect.Value.Interface: cannot return value obtained from unexported field or method"))
	}
	if _, ok := t.Underlying().(*types.Interface); ok {
		// the element inside the interface is returned directly
		x := rV2V(v).(iface)
		return x
	}
	return iface{t, rV2V(v)}
}

func ext۰reflect۰Value۰Convert(fr *frame, args []value) value {
	t := rV2T(args[0]).t
	if t == nil {
		panic(valueErr(fr, "reflect.Value.Convert", args[0]))
	}
	u := args[1].(iface).v.(rtype).t
	if !types.ConvertibleTo(t, u) {
		panic(reflectPanic(fr, "reflect.Value.Convert: value of type "+typeString(t)+" cannot be converted to type "+typeString(u)))
	}
	v := rV2V(args[0])
	fl := rV2F(args[0]) & rflagRO
	if types.Identical(t.Underlying(), u.Underlying()) {
		return makeReflectValueF(u, v, fl)
	}
	if _, ok := u.Underlying().(*types.Interface); ok {
		if _, srcI := t.Underlying().(*types.Interface); srcI {
			return makeReflectValueF(u, v, fl)
		}
		return makeReflectValueF(u, iface{t, v}, fl)
	}
	return makeReflectValueF(u, convS(fr.i, u, t, v), fl)
}

func ext۰reflect۰Value۰Pointer(fr *frame, args []value) value {
	// addresses of the executor's own cells stand in for target addresses:
	// equal iff same cell (interior pointers to a struct's first field are
	// distinct cells here — a stated limitation)
	switch x := rV2V(args[0]).(type) {
	case *value:
		return uintptr(unsafe.Pointer(x))
	case *smap:
		return uintptr(unsafe.Pointer(x))
	case []value:
		if cap(x) == 0 {
			return uintptr(0)
		}
		return uintptr(unsafe.Pointer(&x[:1][0]))
	case *closure:
		return uintptr(unsafe.Pointer(x))
	case *ssa.Function:
		return uintptr(unsafe.Pointer(x))
	}
	panic(valueErr(fr, "reflect.Value.Pointer", args[0]))
}

func ext۰reflect۰Kind۰String(fr *frame, args []value) value {
	return reflect.Kind(args[0].(uint)).String()
}

func ext۰reflect۰error۰Error(fr *frame, args []value) value {
	return args[0]
}

// reflectValueEq models == on reflect.Value structs.
func reflectValueEq(x, y structure) *smt.Term {
	tx, ty := x[0].(rtype).t, y[0].(rtype).t
	if tx == nil || ty == nil {
		return smt.BoolC(tx == nil && ty == nil)
	}
	if !types.Identical(tx, ty) {
		return smt.False
	}
	// both valid and of one type: identity of the underlying word
	switch a := x[1].(type) {
	case *value:
		return smt.BoolC(a == y[1].(*value))
	case *smap:
		return smt.BoolC(a == y[1].(*smap))
	}
	// other kinds: a Value is (type, data pointer, flags). Values standing for
	// the same addressable cell are equal; otherwise a Value compared with a
	// copy of itself is equal and with anything else is not — approximated by
	// structural identity of what they hold (two separately boxed equal
	// scalars would differ in Go; every verdict built on this is replayed).
	if len(x) > 3 && len(y) > 3 {
		ax, _ := x[3].(*value)
		ay, _ := y[3].(*value)
		if ax != nil || ay != nil {
			return smt.BoolC(ax == ay && x[2] == y[2])
		}
	}
	return smt.BoolC(x[2] == y[2] && sameValue(x[1], y[1], 0))
}

// newMethod creates a new method of the specified name, package and receiver type.
func newMethod(pkg *ssa.Package, recvType types.Type, name string) *ssa.Function {
	sig := types.NewSignature(types.NewVar(token.NoPos, nil, "recv", recvType), nil, nil, false)
	fn := pkg.Prog.NewFunction(name, sig, "fake reflect method")
	fn.Pkg = pkg
	return fn
}

func initReflect(i *interpreter) {
	i.reflectPackage = &ssa.Package{
		Prog:    i.prog,
		Pkg:     reflectTypesPackage,
		Members: make(map[string]ssa.Member),
	}
	if r := i.prog.ImportedPackage("reflect"); r != nil {
		reflectValueNamed = r.Pkg.Scope().Lookup("Value").Type().(*types.Named)
	}
	i.rtypeMethods = methodSet{}
	for _, name := range []string{"Bits", "Elem", "Field", "Kind", "NumField", "NumMethod", "String",
		"Key", "Len", "Name", "PkgPath", "ConvertibleTo", "AssignableTo", "Comparable", "Implements", "FieldByName"} {
		i.rtypeMethods[name] = newMethod(i.reflectPackage, rtypeType, name)
	}
	i.errorMethods = methodSet{
		"Error": newMethod(i.reflectPackage, errorType, "Error"),
	}
}

// prepareReflect is run once per loaded program (not per interpreter): it
// changes the type-checker's notion of reflect.Value to the model's shape.
func prepareReflect(prog *ssa.Program) {
	if r := prog.ImportedPackage("reflect"); r != nil {
		rV := r.Pkg.Scope().Lookup("Value").Type().(*types.Named)
		tEface := types.NewInterface(nil, nil).Complete()
		rV.SetUnderlying(types.NewStruct([]*types.Var{
			types.NewField(token.NoPos, r.Pkg, "t", tEface, false), // a lie
			types.NewField(token.NoPos, r.Pkg, "v", tEface, false),
			types.NewField(token.NoPos, r.Pkg, "flag", types.Typ[types.Int], false),
			types.NewField(token.NoPos, r.Pkg, "addr", types.NewPointer(tEface), false),
		}, nil))
	}
}

// ---- MapRange

type mapIterModel struct {
	m    *smap
	mt   *types.Map
	ord  []int
	pos  int
	flag int
}

func ext۰reflect۰Value۰MapRange(fr *frame, args []value) value {
	t := rV2T(args[0]).t
	if t == nil {
		panic(valueErr(fr, "reflect.Value.MapRange", args[0]))
	}
	mt, ok := t.Underlying().(*types.Map)
	if !ok {
		panic(valueErr(fr, "reflect.Value.MapRange", args[0]))
	}
	m := rV2V(args[0]).(*smap)
	var site *ssa.Function
	if fr.caller != nil {
		site = fr.caller.fn
	}
	var ord []int
	if m != nil {
		ord = m.order(fr.i, site)
	}
	cell := value(&mapIterModel{m: m, mt: mt, ord: ord, pos: -1, flag: rV2F(args[0]) & rflagRO})
	return &cell
}

func mapIterOf(fr *frame, v value) *mapIterModel {
	p := v.(*value)
	if p == nil {
		panic(runtimePanic(fr.i, "invalid memory address or nil pointer dereference"))
	}
	return (*p).(*mapIterModel)
}

func ext۰reflect۰MapIter۰Next(fr *frame, args []value) value {
	it := mapIterOf(fr, args[0])
	it.pos++
	return it.pos < len(it.ord)
}

func ext۰reflect۰MapIter۰Key(fr *frame, args []value) value {
	it := mapIterOf(fr, args[0])
	if it.pos < 0 || it.pos >= len(it.ord) {
		panic(reflectPanic(fr, "MapIter.Key called before Next or after exhaustion"))
	}
	return makeReflectValueF(it.mt.Key(), it.m.keys[it.ord[it.pos]], it.flag)
}

func ext۰reflect۰MapIter۰Value(fr *frame, args []value) value {
	it := mapIterOf(fr, args[0])
	if it.pos < 0 || it.pos >= len(it.ord) {
		panic(reflectPanic(fr, "MapIter.Value called before Next or after exhaustion"))
	}
	return makeReflectValueF(it.mt.Elem(), copyVal(it.m.vals[it.ord[it.pos]]), it.flag)
}

func ext۰reflect۰Value۰Slice(fr *frame, args []value) value {
	t := rV2T(args[0]).t
	if t == nil {
		panic(valueErr(fr, "reflect.Value.Slice", args[0]))
	}
	lo, hi := args[1].(int), args[2].(int)
	fl := rV2F(args[0]) & rflagRO
	switch x := rV2V(args[0]).(type) {
	case []value:
		if lo < 0 || hi < lo || hi > cap(x) {
			panic(reflectPanic(fr, "reflect.Value.Slice: slice index out of bounds"))
		}
		return makeReflectValueF(t, x[lo:hi], fl)
	case string, *SymStr:
		b := strBytes(x)
		if lo < 0 || hi < lo || hi > len(b) {
			panic(reflectPanic(fr, "reflect.Value.Slice: string slice index out of bounds"))
		}
		return makeReflectValueF(t, mkStr(b[lo:hi]), fl)
	}
	panic(valueErr(fr, "reflect.Value.Slice", args[0]))
}

func ext۰reflect۰Value۰FieldByName(fr *frame, args []value) value {
	t := rV2T(args[0]).t
	if t == nil {
		panic(valueErr(fr, "reflect.Value.FieldByName", args[0]))
	}
	if _, ok := t.Underlying().(*types.Struct); !ok {
		panic(valueErr(fr, "reflect.Value.FieldByName", args[0]))
	}
	name := concStr(args[1], "FieldByName")
	_, index, ok := lookupStructField(fr, t, name)
	if !ok {
		return makeReflectValue(nil, nil)
	}
	idx := make([]value, len(index))
	for j, x := range index {
		idx[j] = x
	}
	return ext۰reflect۰Value۰FieldByIndex(fr, []value{args[0], idx})
}

func ext۰reflect۰rtype۰FieldByName(fr *frame, args []value) value {
	t := args[0].(rtype).t
	if _, ok := t.Underlying().(*types.Struct); !ok {
		panic(reflectPanic(fr, "reflect: FieldByName of non-struct type "+t.String()))
	}
	name := concStr(args[1], "FieldByName")
	sf, _, ok := lookupStructField(fr, t, name)
	if !ok {
		return tuple{zeroStructField(), false}
	}
	return tuple{sf, true}
}

// lookupStructField finds a field by name the way reflect does: direct fields
// first, then fields promoted through embedded structs (breadth first; a name
// that is ambiguous at the shallowest depth is not found). go/types implements
// the same rule in LookupFieldOrMethod.
func lookupStructField(fr *frame, t types.Type, name string) (value, []int, bool) {
	var pkg *types.Package
	if n, ok := t.(*types.Named); ok && n.Obj() != nil {
		pkg = n.Obj().Pkg()
	}
	if st, ok := t.Underlying().(*types.Struct); ok && pkg == nil && st.NumFields() > 0 {
		pkg = st.Field(0).Pkg()
	}
	obj, index, _ := types.LookupFieldOrMethod(t, true, pkg, name)
	fv, isVar := obj.(*types.Var)
	if !isVar || !fv.IsField() {
		return nil, nil, false
	}
	// walk the index path to the struct that declares the field (for its tag)
	cur := t
	for k, ix := range index {
		if p, ok := cur.Underlying().(*types.Pointer); ok {
			cur = p.Elem()
		}
		st := cur.Underlying().(*types.Struct)
		if k == len(index)-1 {
			sf := ext۰reflect۰rtype۰Field(fr, []value{rtype{cur}, ix}).(structure)
			idx := make([]value, len(index))
			for j, x := range index {
				idx[j] = x
			}
			sf[5] = idx
			return sf, index, true
		}
		cur = st.Field(ix).Type()
	}
	return nil, nil, false
}

func zeroStructField() value {
	return structure{"", "", iface{}, "", uintptr(0), []value(nil), false}
}

func ext۰reflect۰DeepEqual(fr *frame, args []value) value {
	a, b := args[0].(iface), args[1].(iface)
	if a.t == nil || b.t == nil {
		return a.t == nil && b.t == nil
	}
	if !types.Identical(a.t, b.t) {
		return false
	}
	return boolVal(deepEqT(a.v, b.v, 0))
}

// deepEqT: reflect.DeepEqual on values of one type (maps by key lookup, slices
// element-wise, pointers by pointee).
func deepEqT(x, y value, depth int) *smt.Term {
	if depth > 32 {
		panic(abortPath{"inconclusive", "DeepEqual recursion too deep"})
	}
	switch a := x.(type) {
	case *value:
		b := y.(*value)
		if a == nil || b == nil {
			return smt.BoolC(a == b)
		}
		if a == b {
			return smt.True
		}
		return deepEqT(*a, *b, depth+1)
	case []value:
		b := y.([]value)
		if (a == nil) != (b == nil) || len(a) != len(b) {
			return smt.False
		}
		cs := []*smt.Term{}
		for k := range a {
			cs = append(cs, deepEqT(a[k], b[k], depth+1))
		}
		return smt.And(cs...)
	case structure:
		b := y.(structure)
		cs := []*smt.Term{}
		for k := range a {
			cs = append(cs, deepEqT(a[k], b[k], depth+1))
		}
		return smt.And(cs...)
	case array:
		b := y.(array)
		cs := []*smt.Term{}
		for k := range a {
			cs = append(cs, deepEqT(a[k], b[k], depth+1))
		}
		return smt.And(cs...)
	case iface:
		b := y.(iface)
		if !sameType(a.t, b.t) {
			return smt.False
		}
		if a.t == nil {
			return smt.True
		}
		return deepEqT(a.v, b.v, depth+1)
	case *smap:
		b := y.(*smap)
		if (a == nil) != (b == nil) || a.len() != b.len() {
			return smt.False
		}
		if a == nil {
			return smt.True
		}
		if a.nsym > 0 || b.nsym > 0 {
			panic(abortPath{"inconclusive", "DeepEqual on maps with symbolic keys"})
		}
		cs := []*smt.Term{}
		for k, key := range a.keys {
			p, ok := b.idx[key]
			if !ok {
				return smt.False
			}
			cs = append(cs, deepEqT(a.vals[k], b.vals[p], depth+1))
		}
		return smt.And(cs...)
	}
	if isStr(x) && isStr(y) {
		return strEqTerm(x, y)
	}
	if _, ok := scalarKind(x); ok {
		return equalsT(nil, x, y)
	}
	return smt.BoolC(x == y)
}

func ext۰reflect۰AppendSlice(fr *frame, args []value) value {
	t := rV2T(args[0]).t
	u := rV2T(args[1]).t
	if t == nil || u == nil {
		panic(valueErr(fr, "reflect.AppendSlice", args[0]))
	}
	st, ok := t.Underlying().(*types.Slice)
	su, ok2 := u.Underlying().(*types.Slice)
	if !ok || !ok2 || !types.Identical(st.Elem(), su.Elem()) {
		panic(reflectPanic(fr, "reflect.AppendSlice: slice types do not match"))
	}
	a, b := rV2V(args[0]).([]value), rV2V(args[1]).([]value)
	if fr.i.mon != nil {
		fr.i.mon.onAppend(fr, a, len(b))
	}
	cp := make([]value, len(b))
	for k := range b {
		cp[k] = copyVal(b[k])
	}
	return makeReflectValue(t, appendVals(st.Elem(), a, cp))
}

func ext۰reflect۰Value۰Slice3(fr *frame, args []value) value {
	t := rV2T(args[0]).t
	x, ok := rV2V(args[0]).([]value)
	if t == nil || !ok {
		panic(valueErr(fr, "reflect.Value.Slice3", args[0]))
	}
	lo, hi, mx := args[1].(int), args[2].(int), args[3].(int)
	if lo < 0 || hi < lo || mx < hi || mx > cap(x) {
		panic(reflectPanic(fr, "reflect.Value.Slice3: slice index out of bounds"))
	}
	return makeReflectValueF(t, x[lo:hi:mx], rV2F(args[0])&rflagRO)
}

func ext۰reflect۰Value۰Addr(fr *frame, args []value) value {
	t := rV2T(args[0]).t
	a := rV2A(args[0])
	if t == nil || a == nil {
		panic(reflectPanic(fr, "reflect.Value.Addr of unaddressable value"))
	}
	return makeReflectValueF(types.NewPointer(t), a, rV2F(args[0])&rflagRO)
}
