package sx

// Engine: loads /repo (+ harness overlay) as SSA, and explores harness
// functions symbolically with a pool of workers, one solver process each.

import (
	"crypto/sha256"
	"encoding/hex"
	"fmt"
	goparser "go/parser"
	"go/token"
	"go/types"
	"os"
	"path/filepath"
	"runtime"
	"runtime/debug"
	"sort"
	"strings"
	"sync"
	"time"

	"golang.org/x/tools/go/packages"
	"golang.org/x/tools/go/ssa"
	"golang.org/x/tools/go/ssa/ssautil"

	"gosx/peg"
	"gosx/smt"
)

type EngineStats struct {
	Decisions     int
	AssertQueries int
}

type Engine struct {
	NoRegexpNFA bool // debugging: fall back to the uninterpreted regexp result on symbolic subjects
	Prog     *ssa.Program
	Pkgs     map[string]*ssa.Package // by import path
	Fset     *token.FileSet
	RepoDir  string
	subject  map[string]bool // packages re-initialised per path
	once     []string        // environment packages initialised once per interpreter
	Sources  map[string]string // file -> sha256 (repo sources)
	LoadTime time.Duration
	Solver   string
	GenFiles map[string]map[string][]byte // sub dir -> generated harness files (name -> source)

	finfo  sync.Map // *ssa.Function -> *funcInfo
	memoMu sync.RWMutex
	memo   map[string]*memoEntry
	impure map[string]bool

	baseMu      sync.Mutex
	baseGlobals map[*ssa.Global]*value
}

// Config of one exploration.
type RunConfig struct {
	Workers    int
	MaxPaths   int
	Tier       int
	Seed       int64
	StepBudget int64
	TimeoutMs  int // per query
	Deadline   time.Time
	StopAtFirstViolation bool
	AuditEvery int // sample a model of every n-th completed path for native audit
	Trace      bool
	MaxAudits  int
	NoMemo     bool
}

type HarnessResult struct {
	Harness      string
	Paths        int
	ByStatus     map[string]int
	Violations   []PathResult
	Inconclusive []PathResult
	Covers       map[string]int
	Decisions    int
	Steps        int64
	Solver       smt.Stats
	Wall         time.Duration
	Functions    map[string]int64 // subject functions entered, call counts
	Samples      []PathResult
	Audits       []PathResult
	Truncated    bool
	Unknowns     int
	Events       map[string]int
}

var subjectPkgs = []string{
	"github.com/hashicorp/go-bexpr",
	"github.com/hashicorp/go-bexpr/grammar",
	"github.com/mitchellh/pointerstructure",
}

var oncePkgs = []string{"unicode/utf8", "unicode", "strconv", "math", "math/bits", "bytes", "strings", "io"}

// Load builds the SSA program of /repo with the harness overlay.
func Load(repoDir string, overlayDirs map[string]string) (*Engine, error) {
	t0 := time.Now()
	// the grammar's own description, re-read from grammar.peg on every load (C20);
	// kept in memory (overlay) and handed to the native replay build as well
	genFiles := map[string]map[string][]byte{}
	if _, ok := overlayDirs["grammar"]; ok {
		var gen []byte
		if src, err := os.ReadFile(filepath.Join(repoDir, "grammar", "grammar.peg")); err == nil {
			if g, perr := peg.Parse(string(src)); perr == nil {
				gen = []byte(g.GoSource(importsOf(filepath.Join(repoDir, "grammar", "grammar.go"))))
			} else {
				gen = []byte("package grammar\n\n// grammar.peg could not be read: " + strings.ReplaceAll(perr.Error(), "\n", " ") + "\nvar pegRules []*pegRule = nil\nvar pegReadError = " + fmt.Sprintf("%q", perr.Error()) + "\n")
			}
		}
		if gen != nil {
			genFiles["grammar"] = map[string][]byte{"gen_pegspec.go": gen}
		}
	}
	overlay := map[string][]byte{}
	for sub, dir := range overlayDirs {
		ents, err := os.ReadDir(dir)
		if err != nil {
			return nil, err
		}
		for _, e := range ents {
			if e.IsDir() || !strings.HasSuffix(e.Name(), ".go") || strings.HasSuffix(e.Name(), "_native.go") {
				continue
			}
			b, err := os.ReadFile(filepath.Join(dir, e.Name()))
			if err != nil {
				return nil, err
			}
			overlay[filepath.Join(repoDir, sub, "zz_verif_"+e.Name())] = b
		}
	}
	for sub, fs := range genFiles {
		for name, b := range fs {
			overlay[filepath.Join(repoDir, sub, "zz_verif_"+name)] = b
		}
	}
	cfg := &packages.Config{
		Mode:    packages.LoadAllSyntax,
		Dir:     repoDir,
		Overlay: overlay,
		Env:     append(os.Environ(), "GOFLAGS=-mod=mod", "GOPROXY=off", "GOSUMDB=off", "GOTOOLCHAIN=local"),
	}
	initial, err := packages.Load(cfg, ".", "./grammar")
	if err != nil {
		return nil, err
	}
	var errs []string
	packages.Visit(initial, nil, func(p *packages.Package) {
		for _, e := range p.Errors {
			errs = append(errs, e.Error())
		}
	})
	if len(errs) > 0 {
		return nil, fmt.Errorf("load errors:\n%s", strings.Join(errs, "\n"))
	}
	prog, _ := ssautil.AllPackages(initial, ssa.InstantiateGenerics|ssa.SanityCheckFunctions)
	prog.Build()
	e := &Engine{Prog: prog, Pkgs: map[string]*ssa.Package{}, Fset: prog.Fset, RepoDir: repoDir,
		subject: map[string]bool{}, Sources: map[string]string{}, Solver: "z3", memo: map[string]*memoEntry{}, impure: map[string]bool{}}
	for _, p := range prog.AllPackages() {
		e.Pkgs[p.Pkg.Path()] = p
	}
	for _, s := range subjectPkgs {
		e.subject[s] = true
	}
	e.once = oncePkgs
	e.GenFiles = genFiles
	prepareReflect(prog)
	// hash repo sources
	for _, pat := range []string{"*.go", "grammar/*.go", "grammar/*.peg", "go.mod"} {
		ms, _ := filepath.Glob(filepath.Join(repoDir, pat))
		for _, f := range ms {
			if strings.HasSuffix(f, "_test.go") {
				continue
			}
			if b, err := os.ReadFile(f); err == nil {
				h := sha256.Sum256(b)
				rel, _ := filepath.Rel(repoDir, f)
				e.Sources[rel] = hex.EncodeToString(h[:8])
			}
		}
	}
	e.LoadTime = time.Since(t0)
	return e, nil
}

// Harnesses lists harness functions (H_<prop>_...) for a property id.
func (e *Engine) Harnesses(prop string) []string {
	var out []string
	for _, path := range []string{subjectPkgs[0], subjectPkgs[1]} {
		p := e.Pkgs[path]
		if p == nil {
			continue
		}
		for name, m := range p.Members {
			if fn, ok := m.(*ssa.Function); ok && strings.HasPrefix(name, "H_"+prop+"_") {
				_ = fn
				out = append(out, path+"."+name)
			}
		}
	}
	sort.Strings(out)
	return out
}

// AllHarnesses lists the short names of all H_* functions of a package.
func (e *Engine) AllHarnesses(pkgPath string) []string {
	var out []string
	if p := e.Pkgs[pkgPath]; p != nil {
		for name, m := range p.Members {
			if _, ok := m.(*ssa.Function); ok && strings.HasPrefix(name, "H_") {
				out = append(out, name)
			}
		}
	}
	sort.Strings(out)
	return out
}

func (e *Engine) lookupFn(full string) *ssa.Function {
	k := strings.LastIndex(full, ".")
	p := e.Pkgs[full[:k]]
	if p == nil {
		return nil
	}
	return p.Func(full[k+1:])
}

func (e *Engine) newInterpreter(cfg RunConfig) (*interpreter, error) {
	i := &interpreter{
		prog:       e.Prog,
		globals:    make(map[*ssa.Global]*value),
		sizes:      types.SizesFor("gc", "amd64"),
		goroutines: 1,
		eng:        e,
		stepBudget: cfg.StepBudget,
		deadline:   cfg.Deadline,
		auditEvery: cfg.AuditEvery,
		memoOn:     !cfg.NoMemo,
		memo:       map[string]*memoEntry{},
		tier:       cfg.Tier,
		seed:       cfg.Seed,
	}
	if cfg.Trace {
		i.mode |= EnableTracing
	}
	if i.stepBudget == 0 {
		i.stepBudget = defaultStepBudget
	}
	rt := e.Prog.ImportedPackage("runtime")
	if rt == nil {
		return nil, fmt.Errorf("no runtime package")
	}
	i.runtimeErrorString = rt.Type("errorString").Object().Type()
	initReflect(i)
	sol, err := smt.NewSolver(e.Solver, cfg.TimeoutMs)
	if err != nil {
		return nil, err
	}
	i.sol = sol
	sol.OnRestart = func() {
		if i.ps != nil {
			for _, t := range i.ps.pc {
				sol.Assert(t)
			}
		}
	}
	i.ps = &pathState{covers: map[string]bool{}}
	i.fnCount = map[*ssa.Function]int64{}
	e.baseMu.Lock()
	defer e.baseMu.Unlock()
	if e.baseGlobals == nil {
		// globals: allocate all; mark every package initialised except once+subject
		allowed := map[string]bool{}
		for _, p := range e.once {
			allowed[p] = true
		}
		for p := range e.subject {
			allowed[p] = true
		}
		for _, pkg := range e.Prog.AllPackages() {
			for _, m := range pkg.Members {
				if g, ok := m.(*ssa.Global); ok {
					cell := zero(mustDeref(g.Type()))
					i.globals[g] = &cell
					if g.Name() == "init$guard" && !allowed[pkg.Pkg.Path()] {
						*i.globals[g] = true
					}
				}
			}
		}
		// run environment inits once; their globals are immutable afterwards and shared
		for _, p := range e.once {
			pkg := e.Pkgs[p]
			if pkg == nil {
				continue
			}
			if err := i.runInit(pkg); err != nil {
				return nil, fmt.Errorf("init of %s: %v", p, err)
			}
		}
		e.baseGlobals = map[*ssa.Global]*value{}
		for g, c := range i.globals {
			e.baseGlobals[g] = c
		}
	}
	for g, c := range e.baseGlobals {
		if g.Pkg != nil && e.subject[g.Pkg.Pkg.Path()] {
			cell := zero(mustDeref(g.Type()))
			i.globals[g] = &cell
		} else {
			i.globals[g] = c
		}
	}
	return i, nil
}

func (i *interpreter) runInit(pkg *ssa.Package) (err error) {
	defer func() {
		if p := recover(); p != nil {
			err = fmt.Errorf("%v\n%s", describePanic(p), debug.Stack())
		}
	}()
	call(i, nil, token.NoPos, pkg.Func("init"), nil)
	return nil
}

func describePanic(p interface{}) string {
	switch p := p.(type) {
	case targetPanic:
		return "target panic: " + toString(p.v)
	case abortPath:
		return "abort(" + p.kind + "): " + p.msg
	case engineFault:
		return "engine fault: " + string(p)
	case error:
		return "runtime: " + p.Error()
	}
	return fmt.Sprint(p)
}

// reinitSubject zeroes and re-initialises the subject packages' globals.
func (i *interpreter) reinitSubject() error {
	for path := range i.eng.subject {
		pkg := i.eng.Pkgs[path]
		if pkg == nil {
			continue
		}
		for _, m := range pkg.Members {
			if g, ok := m.(*ssa.Global); ok {
				*i.globals[g] = zero(mustDeref(g.Type()))
			}
		}
	}
	return i.runInit(i.eng.Pkgs[subjectPkgs[0]])
}

// runPath executes harness h following prefix.
func (i *interpreter) runPath(h *ssa.Function, prefix []int32) (res PathResult) {
	i.resetPath(prefix)
	i.symMapOrder = 0
	i.mon = nil
	i.fnCount = map[*ssa.Function]int64{}
	res.Prefix = prefix
	finish := func() {
		ps := i.ps
		res.Trace = ps.trace
		res.Inputs = ps.inputs
		res.Covers = sortedKeys(ps.covers)
		res.Steps = ps.steps
		res.Decisions = len(ps.trace)
		res.NewWork = ps.newWork
		res.Events = ps.events
		res.Observed = ps.observed
	}
	defer func() {
		p := recover()
		if p == nil {
			finish()
			return
		}
		switch p := p.(type) {
		case violation:
			res.Status, res.Label, res.Model = "violation", p.label, p.model
		case abortPath:
			switch p.kind {
			case "assume", "infeasible":
				res.Status = "infeasible"
			case "budget":
				res.Status, res.Label = "budget", p.msg
			default:
				res.Status, res.Label = "inconclusive", p.msg
			}
		case engineFault:
			res.Status, res.Label = "inconclusive", "engine fault: "+string(p)
			res.Stack = string(debug.Stack())
		case *runtime.TypeAssertionError:
			res.Status, res.Label = "inconclusive", "engine fault: "+p.Error()
			res.Stack = string(debug.Stack())
		default:
			// a target-level panic escaped the harness
			res.PanicValue = describePanic(p)
			m, r := i.sol.ModelWith(smt.True, i.inputVars())
			switch r {
			case smt.Sat:
				res.Status, res.Label, res.Model = "panic", "panic escaped: "+res.PanicValue, m
			case smt.Unsat:
				res.Status = "infeasible"
			default:
				res.Status, res.Label = "inconclusive", "solver unknown at escaped panic"
			}
			if _, ok := p.(targetPanic); !ok {
				res.Stack = string(debug.Stack())
			}
		}
		finish()
	}()
	if err := i.reinitSubject(); err != nil {
		panic(engineFault("subject init: " + err.Error()))
	}
	call(i, nil, token.NoPos, h, nil)
	res.Status = "ok"
	if i.auditEvery > 0 {
		i.auditCount++
		if i.auditCount%i.auditEvery == 1 || i.auditEvery == 1 {
			if m, r := i.sol.ModelWith(smt.True, i.inputVars()); r == smt.Sat {
				res.Model = m
			}
		}
	}
	return
}

// Explore runs all paths of harness fn.
func (e *Engine) Explore(full string, cfg RunConfig) (*HarnessResult, error) {
	h := e.lookupFn(full)
	if h == nil {
		return nil, fmt.Errorf("no harness %s", full)
	}
	if cfg.Workers <= 0 {
		cfg.Workers = runtime.NumCPU()
	}
	if cfg.TimeoutMs == 0 {
		cfg.TimeoutMs = 10000
	}
	hr := &HarnessResult{Harness: full, ByStatus: map[string]int{}, Covers: map[string]int{}, Functions: map[string]int64{}, Events: map[string]int{}}
	t0 := time.Now()
	var mu sync.Mutex
	cond := sync.NewCond(&mu)
	work := [][]int32{nil}
	active := 0
	stop := false
	var wg sync.WaitGroup
	var firstErr error
	for w := 0; w < cfg.Workers; w++ {
		wg.Add(1)
		go func() {
			defer wg.Done()
			i, err := e.newInterpreter(cfg)
			if err != nil {
				mu.Lock()
				if firstErr == nil {
					firstErr = err
				}
				stop = true
				cond.Broadcast()
				mu.Unlock()
				return
			}
			defer i.sol.Close()
			for {
				mu.Lock()
				for len(work) == 0 && active > 0 && !stop {
					cond.Wait()
				}
				if stop || (len(work) == 0 && active == 0) {
					cond.Broadcast()
					mu.Unlock()
					break
				}
				prefix := work[len(work)-1]
				work = work[:len(work)-1]
				active++
				mu.Unlock()

				res := i.runPath(h, prefix)

				mu.Lock()
				active--
				hr.Paths++
				hr.ByStatus[res.Status]++
				hr.Steps += res.Steps
				hr.Decisions += res.Decisions
				hr.Unknowns += i.ps.unknowns
				for _, c := range res.Covers {
					hr.Covers[c]++
				}
				for _, ev := range res.Events {
					if strings.HasPrefix(ev, "sync:") {
						hr.Events[ev]++
					}
				}
				for fn, c := range i.fnCount {
					if e.subject[pkgPathOf(fn)] {
						hr.Functions[fn.String()] += c
					}
				}
				switch res.Status {
				case "violation", "panic":
					if len(hr.Violations) < 50 {
						hr.Violations = append(hr.Violations, res)
					}
					if cfg.StopAtFirstViolation {
						stop = true
					}
				case "inconclusive", "budget":
					if len(hr.Inconclusive) < 20 {
						hr.Inconclusive = append(hr.Inconclusive, res)
					}
				case "ok":
					if len(hr.Samples) < 3 {
						hr.Samples = append(hr.Samples, res)
					}
					if res.Model != nil && len(hr.Audits) < cfg.MaxAudits {
						hr.Audits = append(hr.Audits, res)
					}
				}
				work = append(work, res.NewWork...)
				if cfg.MaxPaths > 0 && hr.Paths >= cfg.MaxPaths && len(work) > 0 {
					hr.Truncated = true
					stop = true
				}
				if !cfg.Deadline.IsZero() && time.Now().After(cfg.Deadline) && len(work) > 0 {
					hr.Truncated = true
					stop = true
				}
				cond.Broadcast()
				mu.Unlock()
			}
			mu.Lock()
			s := i.sol.Stats
			hr.Solver.Queries += s.Queries
			hr.Solver.SatN += s.SatN
			hr.Solver.UnsatN += s.UnsatN
			hr.Solver.UnknownN += s.UnknownN
			hr.Solver.Errors += s.Errors
			hr.Solver.Time += s.Time
			mu.Unlock()
		}()
	}
	wg.Wait()
	hr.Wall = time.Since(t0)
	if firstErr != nil {
		return nil, firstErr
	}
	return hr, nil
}

// PrintResult writes a human-readable summary.
func PrintResult(w *os.File, hr *HarnessResult) {
	fmt.Fprintf(w, "%s: paths=%d %v decisions=%d steps=%d wall=%v solver: q=%d sat=%d unsat=%d unk=%d err=%d t=%v\n",
		hr.Harness, hr.Paths, hr.ByStatus, hr.Decisions, hr.Steps, hr.Wall.Round(time.Millisecond),
		hr.Solver.Queries, hr.Solver.SatN, hr.Solver.UnsatN, hr.Solver.UnknownN, hr.Solver.Errors, hr.Solver.Time.Round(time.Millisecond))
	fmt.Fprintf(w, "  covers: %v\n", hr.Covers)
	if os.Getenv("VERIF_FUNCS") != "" {
		type kv struct {
			k string
			v int64
		}
		var fs []kv
		for k, v := range hr.Functions {
			fs = append(fs, kv{k, v})
		}
		sort.Slice(fs, func(a, b int) bool { return fs[a].v > fs[b].v })
		for k := 0; k < len(fs) && k < 25; k++ {
			fmt.Fprintf(w, "    %8d %s\n", fs[k].v, fs[k].k)
		}
	}
	for _, v := range hr.Violations {
		fmt.Fprintf(w, "  VIOLATION %s: %s\n    model=%v\n    trace=%v\n", v.Status, v.Label, v.Model, shortTrace(v.Trace))
		if v.Stack != "" {
			fmt.Fprintf(w, "%s\n", v.Stack)
		}
	}
	for _, v := range hr.Inconclusive {
		fmt.Fprintf(w, "  INCONCLUSIVE %s: %s trace=%v\n", v.Status, v.Label, shortTrace(v.Trace))
		if v.Stack != "" {
			fmt.Fprintf(w, "%s\n", v.Stack)
		}
	}
}

// ExpectedCovers statically collects the constant labels passed to vCover by
// the harness and by the harness-side helpers it (transitively) calls.
func (e *Engine) ExpectedCovers(full string) []string {
	h := e.lookupFn(full)
	if h == nil {
		return nil
	}
	seen := map[*ssa.Function]bool{}
	labels := map[string]bool{}
	var visit func(fn *ssa.Function)
	visit = func(fn *ssa.Function) {
		if fn == nil || seen[fn] || fn.Blocks == nil {
			return
		}
		seen[fn] = true
		pos := e.Fset.Position(fn.Pos())
		if !strings.Contains(pos.Filename, "zz_verif_") {
			return
		}
		for _, b := range fn.Blocks {
			for _, ins := range b.Instrs {
				if mc, ok := ins.(*ssa.MakeClosure); ok {
					visit(mc.Fn.(*ssa.Function))
				}
				c, ok := ins.(ssa.CallInstruction)
				if !ok {
					continue
				}
				callee := c.Common().StaticCallee()
				if callee == nil {
					continue
				}
				if callee.Name() == "vCover" && len(c.Common().Args) == 1 {
					if k, ok := c.Common().Args[0].(*ssa.Const); ok {
						labels[constValue(k).(string)] = true
					}
					continue
				}
				visit(callee)
			}
		}
		for _, af := range fn.AnonFuncs {
			visit(af)
		}
	}
	visit(h)
	return sortedKeys(labels)
}

// funcInfo numbers the SSA values of a function so that frames can keep them
// in a slice.
type funcInfo struct {
	index  map[ssa.Value]int
	n      int
	name   string     // fn.String(), computed once
	ext    externalFn // environment model, if any
	denied bool
	memo   bool
}

func (e *Engine) funcInfoOf(fn *ssa.Function) *funcInfo {
	if v, ok := e.finfo.Load(fn); ok {
		return v.(*funcInfo)
	}
	fi := &funcInfo{index: map[ssa.Value]int{}, name: fn.String()}
	if fn.Parent() == nil {
		fi.ext = externals[fi.name]
		fi.denied = deniedPkgs[pkgPathOf(fn)] && !allowedFns[fi.name]
		fi.memo = memoFns[fi.name]
	}
	add := func(v ssa.Value) {
		if _, ok := fi.index[v]; !ok {
			fi.index[v] = fi.n
			fi.n++
		}
	}
	for _, p := range fn.Params {
		add(p)
	}
	for _, fv := range fn.FreeVars {
		add(fv)
	}
	for _, l := range fn.Locals {
		add(l)
	}
	for _, b := range fn.Blocks {
		for _, ins := range b.Instrs {
			if v, ok := ins.(ssa.Value); ok {
				add(v)
			}
		}
	}
	v, _ := e.finfo.LoadOrStore(fn, fi)
	return v.(*funcInfo)
}

func shortTrace(t []int32) []int32 {
	if len(t) > 40 {
		return t[:40]
	}
	return t
}

// importsOf lists the imports of a Go file with one exported identifier each
// (known for the packages the generated parser uses), so that the generated
// pegspec file can import the same packages as grammar.go.
func importsOf(file string) map[string]string {
	known := map[string]string{
		"bytes": "NewBuffer", "errors": "New", "fmt": "Sprintf", "io": "EOF", "math": "MaxInt64", "os": "Args", "sort": "Strings",
		"strconv": "Itoa", "strings": "Join", "sync": "NewCond", "unicode": "IsLetter", "unicode/utf8": "RuneError", "regexp": "MustCompile",
		"github.com/mitchellh/pointerstructure": "Parse", "reflect": "TypeOf", "time": "Now", "encoding/json": "Marshal", "path": "Base", "path/filepath": "Base",
	}
	out := map[string]string{}
	f, err := goparser.ParseFile(token.NewFileSet(), file, nil, goparser.ImportsOnly)
	if err != nil {
		return nil
	}
	for _, im := range f.Imports {
		p := strings.Trim(im.Path.Value, "\"")
		if im.Name != nil {
			continue // renamed / blank imports are not mirrored
		}
		if id, ok := known[p]; ok {
			out[p] = id
		}
	}
	return out
}
