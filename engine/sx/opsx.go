package sx

// Symbolic-aware wrappers around the concrete operators of ops.go.

import (
	"fmt"
	"go/token"
	"go/types"
	"runtime"
	"strings"
	"unicode/utf8"

	"golang.org/x/tools/go/ssa"

	"gosx/smt"
)

func mustDeref(t types.Type) types.Type {
	if p, ok := t.Underlying().(*types.Pointer); ok {
		return p.Elem()
	}
	panic(engineFault("mustDeref: not a pointer: " + t.String()))
}

func isEnginePanic(p interface{}) bool {
	switch p.(type) {
	case abortPath, violation, engineFault, *runtime.TypeAssertionError:
		return true
	}
	return false
}

// runtimePanic builds a target-level runtime error panic value.
func runtimePanic(i *interpreter, msg string) targetPanic {
	msg = strings.TrimPrefix(msg, "runtime error: ")
	return targetPanic{iface{i.runtimeErrorString, msg}}
}

// runtimePanicG is used where no interpreter is at hand; doRecover turns
// the string into a runtime.Error value.
func runtimePanicG(msg string) string { return msg }

func typeAssertPanic(i *interpreter, msg string) targetPanic {
	// *runtime.TypeAssertionError implements error and runtime.Error; the
	// model uses runtime.errorString, which does too.
	return targetPanic{iface{i.runtimeErrorString, msg}}
}

func pkgPathOf(fn *ssa.Function) string {
	if fn.Pkg != nil {
		return fn.Pkg.Pkg.Path()
	}
	if o := fn.Object(); o != nil && o.Pkg() != nil {
		return o.Pkg().Path()
	}
	if fn.Origin() != nil {
		return pkgPathOf(fn.Origin())
	}
	return ""
}

// Packages whose functions are never executed from source; they need a model.
var deniedPkgs = map[string]bool{
	"reflect": true, "sync": true, "sync/atomic": true, "os": true, "syscall": true,
	"runtime": true, "internal/reflectlite": true, "regexp": true, "regexp/syntax": true,
	"github.com/mitchellh/mapstructure": true, "internal/bytealg": true, "time": true,
	"internal/poll": true, "io/fs": true, "internal/abi": true,
}

// Functions of denied packages that are pure and executed from source.
var allowedFns = map[string]bool{
	"(runtime.errorString).Error":        true,
	"(runtime.errorString).RuntimeError": true,
	"(runtime.plainError).Error":         true,
	"(runtime.plainError).RuntimeError":  true,
	"(reflect.StructTag).Lookup":         true,
}

func (i *interpreter) noteCall(fn *ssa.Function, modelled bool) {
	if i.fnCount != nil {
		i.fnCount[fn]++
	}
}

func hasSymDeep(v value) bool {
	switch v := v.(type) {
	case *Sym, *SymStr:
		return true
	case structure:
		for _, e := range v {
			if hasSymDeep(e) {
				return true
			}
		}
	case array:
		for _, e := range v {
			if hasSymDeep(e) {
				return true
			}
		}
	case iface:
		return hasSymDeep(v.v)
	}
	return false
}

func binopS(i *interpreter, op token.Token, t types.Type, x, y value) value {
	if isSym(x) || isSym(y) {
		return symBinop(i, op, t, x, y)
	}
	if op == token.EQL || op == token.NEQ {
		switch x.(type) {
		case structure, array, iface:
			return symBinop(i, op, t, x, y)
		}
	}
	if op == token.QUO || op == token.REM {
		if k, ok := scalarKind(y); ok && kindIsInt(k) && termOf(y).C == 0 {
			panic(runtimePanic(i, "integer divide by zero"))
		}
	}
	return binop(op, t, x, y)
}

func unopS(fr *frame, instr *ssa.UnOp, x value) value {
	if s, ok := x.(*Sym); ok {
		return symUnop(instr.Op, s)
	}
	if instr.Op == token.MUL {
		p := x.(*value)
		if p == nil {
			panic(runtimePanic(fr.i, "invalid memory address or nil pointer dereference"))
		}
	}
	return unop(instr, x)
}

// concInt returns a concrete integer for v, forking over [lo,hi) if symbolic.
func (i *interpreter) concInt(v value, lo, hi int64, why string) int64 {
	if s, ok := v.(*Sym); ok {
		n, ok := i.concretizeRange(s.T, kindSigned(s.K), lo, hi, why)
		if !ok {
			panic(abortPath{"inconclusive", "symbolic " + why + " outside modelled range"})
		}
		return n
	}
	return asInt64(v)
}

// concIndex checks 0 <= idx < n (raising the Go runtime panic otherwise) and
// returns a concrete index, forking if idx is symbolic.
func (i *interpreter) concIndex(idx value, n int) int64 {
	if s, ok := idx.(*Sym); ok {
		w := kindWidth(s.K)
		inb := smt.ULt(s.T, smt.BVC(w, uint64(n)))
		if kindSigned(s.K) {
			inb = smt.And(smt.SLe(smt.BVC(w, 0), s.T), smt.SLt(s.T, smt.BVC(w, uint64(n))))
		}
		if !i.decide(inb, "index-in-range") {
			panic(runtimePanic(i, fmt.Sprintf("index out of range [symbolic] with length %d", n)))
		}
		v, ok := i.concretizeRange(s.T, kindSigned(s.K), 0, int64(n), "index")
		if !ok {
			panic(abortPath{"infeasible", "index concretisation"})
		}
		return v
	}
	k := asInt64(idx)
	if k < 0 || k >= int64(n) {
		panic(runtimePanic(i, fmt.Sprintf("index out of range [%d] with length %d", k, n)))
	}
	return k
}

// sliceS returns x[lo:hi:max].
func sliceS(i *interpreter, x, lo, hi, max value) value {
	var Len, Cap int
	switch x := x.(type) {
	case string:
		Len = len(x)
		Cap = Len
	case *SymStr:
		Len = len(x.B)
		Cap = Len
	case []value:
		Len = len(x)
		Cap = cap(x)
	case *value: // *array
		if x == nil {
			panic(runtimePanic(i, "invalid memory address or nil pointer dereference"))
		}
		a := (*x).(array)
		Len = len(a)
		Cap = cap(a)
	default:
		panic(engineFault(fmt.Sprintf("slice: unexpected X type: %T", x)))
	}
	l := int64(0)
	if lo != nil {
		l = i.concInt(lo, -1, int64(Cap)+2, "slice-low")
	}
	h := int64(Len)
	if hi != nil {
		h = i.concInt(hi, -1, int64(Cap)+2, "slice-high")
	}
	m := int64(Cap)
	if max != nil {
		m = i.concInt(max, -1, int64(Cap)+2, "slice-max")
	}
	if l < 0 || h < l || m < h || m > int64(Cap) {
		panic(runtimePanic(i, fmt.Sprintf("slice bounds out of range [%d:%d:%d] with capacity %d", l, h, m, Cap)))
	}
	switch x := x.(type) {
	case string:
		return x[l:h]
	case *SymStr:
		return mkStr(x.B[l:h])
	case []value:
		return x[l:h:m]
	case *value: // *array
		a := (*x).(array)
		return []value(a)[l:h:m]
	}
	panic("unreachable")
}

// ---- UTF-8 with symbolic bytes

const runeError = int32(utf8.RuneError)

func bytesConcrete(b []value) ([]byte, bool) {
	out := make([]byte, len(b))
	for k, x := range b {
		c, ok := x.(uint8)
		if !ok {
			return nil, false
		}
		out[k] = c
	}
	return out, true
}

func inRange8(t *smt.Term, lo, hi uint64) *smt.Term {
	return smt.And(smt.ULe(smt.BVC(8, lo), t), smt.ULe(t, smt.BVC(8, hi)))
}

// decodeRune models utf8.DecodeRune on a byte vector with possibly symbolic
// bytes. It returns the rune (int32 value) and the width.
func (i *interpreter) decodeRune(b []value) (value, int) {
	n := len(b)
	if n == 0 {
		return runeError, 0
	}
	m := n
	if m > 4 {
		m = 4
	}
	if cb, ok := bytesConcrete(b[:m]); ok {
		r, w := utf8.DecodeRune(cb)
		return int32(r), w
	}
	if c0, ok := b[0].(uint8); ok && c0 < 0x80 {
		return int32(c0), 1
	}
	t0 := termOf(b[0])
	z := func(t *smt.Term) *smt.Term { return smt.ZeroExt(24, t) }
	if i.decide(smt.ULt(t0, smt.BVC(8, 0x80)), "utf8-ascii") {
		return valueOf(z(t0), types.Int32), 1
	}
	cont := func(t *smt.Term) *smt.Term { return inRange8(t, 0x80, 0xBF) }
	sh := func(t *smt.Term, n uint64) *smt.Term { return smt.Shl(t, smt.BVC(32, n)) }
	low6 := func(t *smt.Term) *smt.Term { return smt.BVAnd(z(t), smt.BVC(32, 0x3f)) }
	// two-byte
	if i.decide(inRange8(t0, 0xC2, 0xDF), "utf8-2lead") {
		if n < 2 {
			return runeError, 1
		}
		t1 := termOf(b[1])
		if i.decide(cont(t1), "utf8-2ok") {
			r := smt.BVOr(sh(smt.BVAnd(z(t0), smt.BVC(32, 0x1f)), 6), low6(t1))
			return valueOf(r, types.Int32), 2
		}
		return runeError, 1
	}
	if i.decide(inRange8(t0, 0xE0, 0xEF), "utf8-3lead") {
		if n < 3 {
			return runeError, 1
		}
		t1, t2 := termOf(b[1]), termOf(b[2])
		ok1 := smt.Or(
			smt.And(smt.Eq(t0, smt.BVC(8, 0xE0)), inRange8(t1, 0xA0, 0xBF)),
			smt.And(smt.Eq(t0, smt.BVC(8, 0xED)), inRange8(t1, 0x80, 0x9F)),
			smt.And(smt.Not(smt.Eq(t0, smt.BVC(8, 0xE0))), smt.Not(smt.Eq(t0, smt.BVC(8, 0xED))), cont(t1)))
		if i.decide(smt.And(ok1, cont(t2)), "utf8-3ok") {
			r := smt.BVOr(smt.BVOr(sh(smt.BVAnd(z(t0), smt.BVC(32, 0x0f)), 12), sh(low6(t1), 6)), low6(t2))
			return valueOf(r, types.Int32), 3
		}
		return runeError, 1
	}
	if i.decide(inRange8(t0, 0xF0, 0xF4), "utf8-4lead") {
		if n < 4 {
			return runeError, 1
		}
		t1, t2, t3 := termOf(b[1]), termOf(b[2]), termOf(b[3])
		ok1 := smt.Or(
			smt.And(smt.Eq(t0, smt.BVC(8, 0xF0)), inRange8(t1, 0x90, 0xBF)),
			smt.And(smt.Eq(t0, smt.BVC(8, 0xF4)), inRange8(t1, 0x80, 0x8F)),
			smt.And(inRange8(t0, 0xF1, 0xF3), cont(t1)))
		if i.decide(smt.And(ok1, cont(t2), cont(t3)), "utf8-4ok") {
			r := smt.BVOr(smt.BVOr(smt.BVOr(sh(smt.BVAnd(z(t0), smt.BVC(32, 0x07)), 18), sh(low6(t1), 12)), sh(low6(t2), 6)), low6(t3))
			return valueOf(r, types.Int32), 4
		}
		return runeError, 1
	}
	return runeError, 1
}

// encodeRune models utf8.AppendRune for a possibly symbolic rune.
func (i *interpreter) encodeRune(r value) []value {
	if c, ok := r.(int32); ok {
		bs := utf8.AppendRune(nil, rune(c))
		out := make([]value, len(bs))
		for k, b := range bs {
			out[k] = b
		}
		return out
	}
	t := termOf(r)
	if t.S.W != 32 {
		t = smt.Resize(t, 32, true)
	}
	b8 := func(x *smt.Term) value { return valueOf(smt.Extract(7, 0, x), types.Uint8) }
	shr := func(x *smt.Term, n uint64) *smt.Term { return smt.LShr(x, smt.BVC(32, n)) }
	c := func(v uint64) *smt.Term { return smt.BVC(32, v) }
	tx := func(x *smt.Term) value { // 0x80 | x&0x3f
		return b8(smt.BVOr(c(0x80), smt.BVAnd(x, c(0x3f))))
	}
	if i.decide(smt.ULt(t, c(0x80)), "enc-1") {
		return []value{b8(t)}
	}
	if i.decide(smt.ULt(t, c(0x800)), "enc-2") {
		return []value{b8(smt.BVOr(c(0xC0), shr(t, 6))), tx(t)}
	}
	bad := smt.Or(smt.Not(smt.ULe(t, c(0x10FFFF))), smt.And(smt.ULe(c(0xD800), t), smt.ULe(t, c(0xDFFF))))
	if i.decide(bad, "enc-bad") {
		return []value{uint8(0xEF), uint8(0xBF), uint8(0xBD)}
	}
	if i.decide(smt.ULt(t, c(0x10000)), "enc-3") {
		return []value{b8(smt.BVOr(c(0xE0), shr(t, 12))), tx(shr(t, 6)), tx(t)}
	}
	return []value{b8(smt.BVOr(c(0xF0), shr(t, 18))), tx(shr(t, 12)), tx(shr(t, 6)), tx(t)}
}

type strIter struct {
	i   *interpreter
	b   []value
	pos int
}

func (it *strIter) next() tuple {
	okv := make(tuple, 3)
	if it.pos >= len(it.b) {
		okv[0] = false
		return okv
	}
	r, w := it.i.decodeRune(it.b[it.pos:])
	okv[0] = true
	okv[1] = it.pos
	okv[2] = r
	it.pos += w
	return okv
}

// convS is conv with support for symbolic operands.
func convS(i *interpreter, t_dst, t_src types.Type, x value) value {
	ut_src := t_src.Underlying()
	ut_dst := t_dst.Underlying()
	switch x := x.(type) {
	case *Sym:
		if bd, ok := ut_dst.(*types.Basic); ok {
			if bd.Kind() == types.String {
				// string(rune)
				r := symConvScalar(x, types.Int32)
				if kindWidth(x.K) > 32 {
					// out-of-range values become RuneError; approximate via sign/zero ext check
					panic(engineFault("string(int64 symbolic)"))
				}
				return mkStr(i.encodeRune(r))
			}
			return symConvScalar(x, bd.Kind())
		}
		panic(engineFault(fmt.Sprintf("convS sym -> %s", t_dst)))
	case *SymStr:
		switch ut_dst := ut_dst.(type) {
		case *types.Slice:
			switch ut_dst.Elem().Underlying().(*types.Basic).Kind() {
			case types.Byte:
				return append([]value{}, x.B...)
			case types.Rune:
				var res []value
				for p := 0; p < len(x.B); {
					r, w := i.decodeRune(x.B[p:])
					res = append(res, r)
					p += w
				}
				return res
			}
		case *types.Basic:
			if ut_dst.Kind() == types.String {
				return x
			}
		}
		panic(engineFault(fmt.Sprintf("convS symstr -> %s", t_dst)))
	case []value:
		if sl, ok := ut_src.(*types.Slice); ok {
			if b, ok := sl.Elem().Underlying().(*types.Basic); ok {
				if bd, ok := ut_dst.(*types.Basic); ok && bd.Kind() == types.String {
					switch b.Kind() {
					case types.Byte:
						return mkStr(x)
					case types.Rune:
						var out []value
						for _, r := range x {
							out = append(out, i.encodeRune(r)...)
						}
						return mkStr(out)
					}
				}
			}
		}
	}
	return conv(t_dst, t_src, x)
}

// appendVals is append(a, b...) that keeps spare capacity filled with zero
// values of the element type (Go's native append leaves nil interfaces).
func appendVals(elem types.Type, a, b []value) []value {
	if len(a)+len(b) <= cap(a) {
		return append(a, b...)
	}
	n := len(a) + len(b)
	c := 2 * cap(a)
	if c < n {
		c = n
	}
	if c < 4 {
		c = 4
	}
	out := make([]value, n, c)
	copy(out, a)
	copy(out[len(a):], b)
	full := out[:c]
	for k := n; k < c; k++ {
		full[k] = zero(elem)
	}
	return out
}
