package main

import "time"

// propSpec: per-property settings of the checker. Index 0 = quick, 1 = thorough.
type propSpec struct {
	Level           string
	Technique       string
	Bounds          [2]string
	Outside         string
	Assumptions     []string
	Race            bool
	ReplayRepeat    int
	StepBudget      int64
	MaxInconclusive int
	AllowTruncation bool
	MaxPathsT       [2]int
	DeadlineT       [2]time.Duration
	TimeoutT        [2]int
}

func (p propSpec) auditEvery(tier int) int {
	if tier == 1 {
		return 10
	}
	return 40
}
func (p propSpec) maxAudits(tier int) int {
	if tier == 1 {
		return 24
	}
	return 6
}
func (p propSpec) timeoutMs(tier int) int {
	if p.TimeoutT[tier] != 0 {
		return p.TimeoutT[tier]
	}
	if tier == 1 {
		return 60000
	}
	return 10000
}
func (p propSpec) maxPaths(tier int) int            { return p.MaxPathsT[tier] }
func (p propSpec) Deadline(tier int) time.Duration { return p.DeadlineT[tier] }

const techSX = "symbolic execution of the real code's go/ssa (GoSX) with SMT (z3) deciding every branch and assertion over all values of the symbolic inputs within the stated bounds; counterexamples replayed natively"

var properties = map[string]propSpec{
	"C09": {
		Level: "model_checking", Technique: techSX,
		Bounds:  [2]string{"8 operators x 44 datum shapes (every reflect.Kind incl. Invalid, nil/odd elements in containers) x literal (every string <= 2 bytes + 5 fixed spellings); selector direct, through quantifier alias, map value binding, under not/or; datum root", "same"},
		Outside: "datum shapes other than the 44 listed; literals longer than 2 symbolic bytes",
	},
	"C02": {
		Level: "model_checking", Technique: techSX,
		Bounds: [2]string{"literal: every byte string of length <= 3; field value: full domain of its kind", "literal: every byte string of length <= 4; field value: full domain of its kind"},
		Outside: "literals longer than the bound; float literals outside the native-read corpus",
	},
}
