package main

import "time"

// propSpec: per-property settings of the checker. Index 0 = quick, 1 = thorough.
type propSpec struct {
	Level           string
	Technique       string
	Bounds          [2]string
	Outside         string
	Assumptions     []string
	Race            bool
	ReplayRepeat    int
	StepBudget      int64
	MaxInconclusive int
	AllowTruncation bool
	MaxPathsT       [2]int
	DeadlineT       [2]time.Duration
	TimeoutT        [2]int
}

func (p propSpec) auditEvery(tier int) int {
	if tier == 1 {
		return 10
	}
	return 40
}
func (p propSpec) maxAudits(tier int) int {
	if tier == 1 {
		return 24
	}
	return 6
}
func (p propSpec) timeoutMs(tier int) int {
	if p.TimeoutT[tier] != 0 {
		return p.TimeoutT[tier]
	}
	if tier == 1 {
		return 60000
	}
	return 10000
}
func (p propSpec) maxPaths(tier int) int            { return p.MaxPathsT[tier] }
// Deadline per harness: a harness that has not finished by then is truncated
// (violations found so far are still replayed and reported; otherwise the
// check exits 2, bound hit — never success).
func (p propSpec) Deadline(tier int) time.Duration {
	if p.DeadlineT[tier] != 0 {
		return p.DeadlineT[tier]
	}
	if tier == 1 {
		return 90 * time.Minute
	}
	return 6 * time.Minute
}

const techSX = "symbolic execution of the real code's go/ssa (GoSX) with SMT (z3) deciding every branch and assertion over all values of the symbolic inputs within the stated bounds; counterexamples replayed natively"

var properties = map[string]propSpec{
	"C01": {
		Level: "model_checking", Technique: techSX + "; differential against a reference interpreter (refEval) over an explicit model tree built from the same symbolic leaves",
		Bounds:  [2]string{"datum {x: V, y: scalar}: V over 21 shapes (10 scalar kinds incl. named, pointer, nil pointer, json.Number, nil; []interface{} of 0..2 scalars, []int8, [2]string, map[string]interface{} over 2 keys, map[string]int8, tagged struct (renamed/hidden/unexported/untagged fields, behind a pointer or not), []*int8 with nil, []byte, named-string-keyed map, list of maps, []struct), leaves symbolic; 15 selector forms x 8 operators x 6 literals, with and without an unknown value (quick: every (shape, operator) pair with 5 structural selector forms (x, x.a, x.0, absent leaf, three parts) + 1 seed-selected, literal \"1\" + 1 seed-selected, no unknown value or 1 seed-selected); 15 composite templates (quick: 3 seed-selected per pair) (connectives, quantifiers in all binding modes, nested, aliases, JSON pointers); three Go representations of one document", "all 21 shapes"},
		Outside: "what refEval calls unspecified (assumed away): non-canonical list indices, NaN; datum shapes beyond the 21; more than one container level below x; map key types other than string / named string",
	},
	"C20": {
		Level: "translation_validation", Technique: "translation validation of grammar.peg vs the compiled table: (1) the table is obtained by executing the real package init in GoSX and walked in lock-step with an independent reading of grammar.peg (structure, order, labels, operators, positions); (2) every literal / class / any matcher is run by the real engine on symbolic input and z3 decides, for all runes, agreement with the grammar text; (3) every action and predicate is executed through its callon wrapper on symbolic label values / matched text and z3 decides equality with the grammar's own code block compiled from grammar.peg",
		Bounds:  [2]string{"all 37 rules, all nodes (complete walk); matchers: input of every byte string <= 4 bytes (<= literal length for literals), i.e. every rune incl. ill-formed UTF-8 and EOF; code blocks: all 50, label values symbolic within the sample family (strings <= 2 bytes, selectors, operators, 4 expression shapes, segment lists), matched text <= 3 symbolic bytes or a quoted template", "same"},
		Outside: "label values outside the sample family; the generic PEG engine itself (C15 compares its behaviour with the reference recogniser); a consistent edit of both files (C15's job)",
		StepBudget: 600_000_000,
	},
	"C19": {
		Level: "model_checking", Technique: techSX + "; differential against a reference renderer; fmt is modelled exactly for the verbs ast.go uses (%s %v %q %[n]x with Stringer/error methods executed from source)",
		Bounds:  [2]string{"18 parser-produced trees (every node kind, operator, binding mode, selector type; nasty literals) x indent of every string <= 2 bytes x start level 0..3; hand-built trees with symbolic selector parts (<= 1 byte; 2 thorough), literal (<= 1 ASCII byte; 2 thorough: %q decided per byte), binding name, 9 operator values (incl. out of range), 3 selector types, 4 wrappers; three dumps in sequence with different symbolic indents", "same"},
		Outside: "literal bytes >= 0x80 in symbolic position (multi-byte %q is rendered natively for concrete text only); trees deeper than the corpus",
		StepBudget: 600_000_000,
	},
	"C07": {
		Level: "model_checking", Technique: techSX + "; path parts are symbolic bytes rendered in every spelling and parsed by the real parser",
		Bounds:  [2]string{"bracket / backtick / JSON-Pointer (with ~0 ~1) / spaced-bracket spellings of a part of 1..2 symbolic pointer-expressible bytes, as match selector, in-operand and quantified collection, on a datum whose key is symbolic (2 bytes); dotted / bracket / pointer / mixed spellings of three-part paths with a symbolic identifier part and index, at top level and inside a quantifier body; exact matching of a 3-byte symbolic part against map keys and struct field/tag names", "same"},
		Outside: "parts longer than the symbolic bound; parts with bytes outside the JSON-Pointer segment class in the pointer spelling",
		StepBudget: 600_000_000,
	},
	"C16": {
		Level: "model_checking", Technique: techSX + "; a harness-side printer with symbolic layout/style choices feeds the real parser",
		Bounds:  [2]string{"trees of depth <= 2 over {not, and, or, any/all in 4 binding modes} with one symbolic leaf (symbolic identifier byte, 8 operators, 4 selector spellings, 5 literal styles with a symbolic byte) and fixed other leaves; per node: optional/required whitespace drawn from {none, space, tab, newline, CR, double}, redundant parentheses; all 4 and/or chains of three operands; quoted literals: 2 verbatim bytes, 2 raw bytes, every single byte via \\xHH, a corpus of nasty strings", "as quick with all six whitespace forms, all binding modes; plus trees of depth 3 over not/and/or with the default layout"},
		Outside: "deeper trees; more than one symbolic leaf per tree; literals longer than 2 symbolic bytes; `\\\"` inside double quotes is not expressible in the language (literal ends at the first quote)",
		StepBudget: 600_000_000,
	},
	"C15": {
		Level: "model_checking", Technique: techSX + "; differential against a hand-written ordered-choice recogniser/AST builder executed on the same symbolic bytes",
		Bounds:  [2]string{"every byte string of length <= 3; 110 corpus strings (accepting and rejecting, every language-boundary fact of DESIGN.md Appendix B) concretely; for a seed-selected sixteenth of the corpus every position with one byte replaced by / one byte inserted as an unconstrained byte; token templates with symbolic token contents", "every byte string of length <= 4; windows over the whole corpus"},
		Outside: "inputs longer than the symbolic bound that differ from every corpus string/template in more than the symbolic positions",
		StepBudget: 600_000_000,
	},
	"C10": {
		Level: "model_checking", Technique: techSX + "; the PEG engine, rule table, actions, utf8 decoding and strconv.Unquote run on symbolic bytes",
		Bounds:  [2]string{"every byte string of length <= 3 (2^24+ inputs); 59 corpus strings (every rule and error production) concretely; for a seed-selected eighth of the corpus every position with one byte replaced by, or one byte inserted as, an unconstrained byte", "every byte string of length <= 4 (2^32+); windows over the whole corpus"},
		Outside: "inputs longer than the symbolic bound that differ from every corpus string in more than one byte",
		StepBudget: 8_000_000_000, // the single 4-byte input "((((" costs 3.7 M parser steps per parse
	},
	"C11": {
		Level: "model_checking", Technique: techSX + "; the budget is a symbolic uint64 case-split by the parser's own comparison",
		Bounds:  [2]string{"13 inputs (valid, invalid with each error production, nesting <= 2) x budgets n in [0,10] U [N-10,N+10] U [2^62,2^64) (N = unlimited step count, measured on the path); one seed-selected of 8 short inputs (among them mid-parse errors: invalid UTF-8, malformed number, index on the left, bad escape) x EVERY budget 0..N+2; nesting depth 6..8 under budgets 50..2000; CreateEvaluator/CreateFilter hand-over on 6 inputs", "windows of 96 around 0 and N; all 8 short inputs x every budget 0..N+2"},
		Outside: "budgets strictly between the windows on the long inputs (every budget is covered on the 8 short ones); inputs outside the corpus",
		StepBudget: 600_000_000,
	},
	"C18": {
		Level: "model_checking", Technique: techSX,
		Bounds:  [2]string{"9 expressions on a tagged struct datum with symbolic leaves; every ordered pair of distinct option kinds x 3 settings each; repeated options (with an unrelated one in between); 6 neutral settings; unwrap/identity/constant hooks executed symbolically through pointerstructure; budget symbolic above 2^32", "same"},
		Outside: "option lists longer than 3; hooks outside the three-member family",
	},
	"C08": {
		Level: "model_checking", Technique: techSX + "; self-composition (two runs on data that agree on visible leaves and are independent on hidden ones)",
		Bounds:  [2]string{"40 expression templates (every operator on hidden/unexported/renamed fields by Go name and tag name, enclosing structs, quantifiers, JSON pointers) x {default tag, alt tag, unknown value} on a struct family (hidden field at top level, nested behind a pointer, in slice elements and map values, a field renamed to a hidden field's Go name); symbolic selector names (<= 2 bytes top level, 1 byte nested) x 8 operators x 2 tags; Filter over slices", "same"},
		Outside: "struct types outside the family; selector names longer than the symbolic bound",
	},
	"C13": {
		Level: "model_checking", Technique: techSX + "; effect monitor for datum immutability; bounded call histories compared with fresh evaluators",
		Bounds:  [2]string{"histories of 2 calls (3 datum families: symbolic well-typed, ill-typed/erroring, concrete) over 24 expressions x 4 option sets, third compared with a fresh evaluator; Execute on slices/maps/pointer slices of 3-4 symbolic elements; Expression() on 4 templates with 1-3 symbolic bytes", "histories of 3 calls"},
		Outside: "longer histories (covered by C12's effect result: a call that writes no pre-existing state cannot influence a later one); other expressions",
		Race:    false,
	},
	"C12": {
		Level: "model_checking", Technique: techSX + "; effect monitor (writes to cells that pre-exist the call) and synchronisation monitor over every explored path, plus a memory-model argument that makes the verdict schedule-independent",
		Bounds:  [2]string{"24 expressions (every operator incl. matches/not matches, in on every collection kind, quantifiers in 3 binding modes, connectives, JSON pointer, erroring and absent selectors) x 4 option sets (none, unknown value, unwrap hook + tag, unknown + budget + identity hook) on a symbolic datum; first and second use; Filter.Execute over slices and maps; CreateEvaluator", "same"},
		Outside: "expressions and options outside the family; the inside of regexp (documented safe for concurrent use) and reflect",
		Race:    true,
		Assumptions: []string{"Go memory model: without synchronisation two calls race iff they touch a common cell and one touch is a write; a path that writes no pre-existing cell and publishes no fresh cell cannot race with a concurrent call", "regexp.Regexp is safe for concurrent use (documented)"},
	},
	"C17": {
		Level: "model_checking", Technique: techSX,
		Bounds:  [2]string{"containers of 0..2 elements ([]T, named slice, [2]T, []*T, map[string]T, map[int]T, map[namedString]*T) whose elements' outcomes are free (true/false/error); nil filter; 7 non-container inputs incl. nil; idempotence; E / not(E) partition", "containers of 0..3 elements"},
		Outside: "containers longer than the bound; element types other than the struct family used",
	},
	"C14": {
		Level: "model_checking", Technique: techSX + "; map iteration order is a nondeterministic choice explored exhaustively (n! orders per MapKeys/range)",
		Bounds:  [2]string{"maps of 2..3 entries (element: symbolic int8 / string / erroring slice); every pair of iteration orders at every MapKeys/range (36 per map of 3); 5 quantifier templates, Filter.Execute over maps, selector lookups", "maps of 2..4 entries (576 order pairs per map of 4)"},
		Outside: "maps with more entries than the bound",
		ReplayRepeat: 300,
		Assumptions: []string{"native replay cannot select an iteration order: it repeats the call up to 300 times until two results differ"},
	},
	"C06": {
		Level: "model_checking", Technique: techSX,
		Bounds:  [2]string{"lists of 0..2 symbolic elements (int8 / string / erroring slice), maps over 2 candidate keys with symbolic presence and values; 5 list binding templates, 6 nesting/scoping templates (field, JSON pointer, nested quantifier, shadowing, same-named top-level field), 4 map templates; non-iterable collections", "lists 0..3, maps over 3 candidate keys"},
		Outside: "collections longer than the bound; with an erroring map element only 'error or decisive value' is demanded (which of the two is C14)",
	},
	"C05": {
		Level: "model_checking", Technique: techSX,
		Bounds:  [2]string{"selectors of 1..3 parts; absent step at leaf / intermediate / root / field / index / scalar / nil, through maps (string, named-string, typed, nil), structs, lists, pointers and quantifier aliases; map key bytes symbolic (1 byte: the solver decides collision); 8 operators; unknown value symbolic in int64/string/bool/uint8/nil", "same"},
		Outside: "parent reached through *map (an error today; the statement says 'a map'); key strings longer than 1 symbolic byte",
	},
	"C03": {
		Level: "model_checking", Technique: techSX,
		Bounds:  [2]string{"leaves: 7 outcome gadgets (3 for depth-3 skeletons) with symbolic data; every pair of leaves for one step (and/or/not, double negation, De Morgan); 8 depth-3 skeletons over three leaves", "7 gadgets for the step, 5 for depth-3 skeletons"},
		Outside: "leaves other than the gadget family; skeletons deeper than 3 (covered by composition of the step)",
		Assumptions: []string{"frame fact: a sub-expression's outcome depends only on (sub-tree, datum, options) — C13's effect result"},
	},
	"C04": {
		Level: "model_checking", Technique: techSX,
		Bounds:  [2]string{"4 operator pairs x 44 shapes x 5 placements (direct, nested map, absent map key, absent top-level key, list element) x literal (<= 2 symbolic bytes + fixed spellings); NotPresentDisposition for all 2^64 operator values", "same"},
		Outside: "shapes outside the 44; regexp verdicts on symbolic subjects are uninterpreted (same pattern+subject => same verdict)",
	},
	"C09": {
		Level: "model_checking", Technique: techSX,
		Bounds:  [2]string{"8 operators x 58 datum shapes (quick: a seed-selected half / third of the (shape, operator) pairs per harness) (every reflect.Kind incl. Invalid, nil/odd elements in containers) x literal (every string <= 2 bytes + 5 fixed spellings); selector direct, through quantifier alias, map value binding, under not/or; datum root", "same"},
		Outside: "datum shapes other than the 58 listed; literals longer than 2 symbolic bytes",
	},
	"C02": {
		Level: "model_checking", Technique: techSX,
		Bounds: [2]string{"literal: every byte string of length <= 3; field value: full domain of its kind", "literal: every byte string of length <= 4; field value: full domain of its kind"},
		Outside: "literals longer than the bound; float literals outside the native-read corpus",
	},
}
