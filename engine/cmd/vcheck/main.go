package main

import (
	"flag"
	"fmt"
	"os"
	"runtime/debug"
	"runtime/pprof"

	"gosx/sx"
)

func main() {
	debug.SetGCPercent(400)
	if len(os.Args) < 2 {
		fmt.Fprintln(os.Stderr, "usage: vcheck dev <harness> | run <prop> ...")
		os.Exit(2)
	}
	switch os.Args[1] {
	case "run":
		os.Exit(cmdRun(os.Args[2:]))
	case "replay":
		os.Exit(cmdReplay(os.Args[2:]))
	case "dev":
		fs := flag.NewFlagSet("dev", flag.ExitOnError)
		workers := fs.Int("workers", 1, "")
		trace := fs.Bool("trace", false, "")
		maxp := fs.Int("maxpaths", 0, "")
		tier := fs.Int("tier", 0, "")
		prof := fs.String("cpuprofile", "", "")
		fs.Parse(os.Args[3:])
		if *prof != "" {
			f, _ := os.Create(*prof)
			pprof.StartCPUProfile(f)
			defer pprof.StopCPUProfile()
		}
		eng, err := sx.Load("/repo", map[string]string{".": "/verif/harness/bexpr", "grammar": "/verif/harness/grammar"})
		if err != nil {
			fmt.Fprintln(os.Stderr, err)
			os.Exit(2)
		}
		fmt.Fprintf(os.Stderr, "loaded in %v\n", eng.LoadTime)
		hr, err := eng.Explore(os.Args[2], sx.RunConfig{Workers: *workers, Trace: *trace, MaxPaths: *maxp, Tier: *tier})
		if err != nil {
			fmt.Fprintln(os.Stderr, err)
			os.Exit(2)
		}
		sx.PrintResult(os.Stdout, hr)
	}
}
