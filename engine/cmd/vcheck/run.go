package main

import (
	"encoding/json"
	"fmt"
	"os"
	"os/exec"
	"path/filepath"
	"regexp"
	"sort"
	"strconv"
	"strings"
	"sync"
	"time"

	"gosx/sx"
)

const verifDir = "/verif"

// repoDir is /repo; VERIF_REPO overrides it only for trials of seeded changes
// on a scratch copy (never set by the registered commands).
// harnessDir holds the overlay sources; VERIF_HARNESS points trials of seeded
// changes at a frozen copy so that edits under /verif do not disturb them.
var harnessDir = func() string {
	if d := os.Getenv("VERIF_HARNESS"); d != "" {
		return d
	}
	return filepath.Join(verifDir, "harness")
}()

// outDir receives evidence/ and replays/ (VERIF_OUT: seeded-change trials only).
var outDir = func() string {
	if d := os.Getenv("VERIF_OUT"); d != "" {
		return d
	}
	return verifDir
}()

var repoDir = func() string {
	if d := os.Getenv("VERIF_REPO"); d != "" {
		return d
	}
	return "/repo"
}()

type knownFinding struct {
	Property string `json:"property"`
	Harness  string `json:"harness"` // regexp on harness short name
	Label    string `json:"label"`   // regexp on violation label
	What     string `json:"what"`
	Witness  string `json:"witness,omitempty"`
}

type knownFile struct {
	Findings []knownFinding `json:"findings"`
	Fixed    []string       `json:"fixed"`
}

func loadKnown() knownFile {
	var k knownFile
	b, err := os.ReadFile(filepath.Join(verifDir, "known_findings.json"))
	if err == nil {
		json.Unmarshal(b, &k)
	}
	return k
}

func (k knownFile) match(prop, harness, label string) *knownFinding {
	for i := range k.Findings {
		f := &k.Findings[i]
		if f.Property != prop {
			continue
		}
		hm, _ := regexp.MatchString(f.Harness, harness)
		lm, _ := regexp.MatchString(f.Label, label)
		if hm && lm {
			return f
		}
	}
	return nil
}

type replayInput struct {
	Kind string `json:"kind"`
	Val  uint64 `json:"val"`
}

type replayFile struct {
	Harness string        `json:"harness"`
	Label   string        `json:"label"`
	Kind    string        `json:"kind"`
	Tier    int           `json:"tier"`
	Seed    int           `json:"seed"`
	Repeat  int           `json:"repeat"`
	Expect  string        `json:"expect"`
	Inputs  []replayInput `json:"inputs"`
	Package string        `json:"package"`
}

func shortName(full string) string { return full[strings.LastIndex(full, ".")+1:] }
func pkgOf(full string) string     { return full[:strings.LastIndex(full, ".")] }

func mkReplay(full string, r sx.PathResult, tier int, seed int64, expect string, repeat int) replayFile {
	rf := replayFile{Harness: shortName(full), Label: r.Label, Kind: r.Status, Tier: tier, Seed: int(seed), Expect: expect, Repeat: repeat, Package: pkgOf(full)}
	for _, in := range r.Inputs {
		switch in.Kind {
		case "len", "choose":
			rf.Inputs = append(rf.Inputs, replayInput{in.Kind, uint64(in.Len)})
		default:
			rf.Inputs = append(rf.Inputs, replayInput{in.Kind, r.Model[in.Name]})
		}
	}
	return rf
}

// runReplays runs the native twin on a set of replay files of one package and
// returns file -> outcome line.
func runReplays(eng *sx.Engine, pkgPath string, files []string, race bool) (map[string]string, error) {
	out := map[string]string{}
	if len(files) == 0 {
		return out, nil
	}
	sub := "."
	pkgName := "bexpr"
	hdir := filepath.Join(harnessDir, "bexpr")
	if strings.HasSuffix(pkgPath, "/grammar") {
		sub, pkgName, hdir = "grammar", "grammar", filepath.Join(harnessDir, "grammar")
	}
	work, err := os.MkdirTemp(filepath.Join(outDir, "replays"), "build")
	if err != nil {
		return nil, err
	}
	defer os.RemoveAll(work)
	overlay := map[string]string{}
	ents, _ := os.ReadDir(hdir)
	for _, e := range ents {
		n := e.Name()
		if !strings.HasSuffix(n, ".go") || n == "intrinsics.go" {
			continue
		}
		overlay[filepath.Join(repoDir, sub, "zz_verif_"+strings.TrimSuffix(n, ".go")+"_test.go")] = filepath.Join(hdir, n)
	}
	gen := func(tmpl, name string, extra string) error {
		b, err := os.ReadFile(filepath.Join(harnessDir, "native", tmpl))
		if err != nil {
			return err
		}
		src := strings.Replace(string(b), "package PKG", "package "+pkgName, 1) + extra
		p := filepath.Join(work, name)
		if err := os.WriteFile(p, []byte(src), 0o644); err != nil {
			return err
		}
		overlay[filepath.Join(repoDir, sub, "zz_verif_"+name)] = p
		return nil
	}
	for name, b := range eng.GenFiles[sub] {
		p := filepath.Join(work, name)
		if err := os.WriteFile(p, b, 0o644); err != nil {
			return nil, err
		}
		overlay[filepath.Join(repoDir, sub, "zz_verif_"+strings.TrimSuffix(name, ".go")+"_test.go")] = p
	}
	var reg strings.Builder
	reg.WriteString("\nvar verifHarnesses = map[string]func(){\n")
	for _, h := range eng.AllHarnesses(pkgPath) {
		fmt.Fprintf(&reg, "\t%q: %s,\n", h, h)
	}
	reg.WriteString("}\n")
	if err := gen("intrinsics_native.go.txt", "native_test.go", ""); err != nil {
		return nil, err
	}
	if err := gen("replay_test.go.txt", "replay_test.go", reg.String()); err != nil {
		return nil, err
	}
	if pkgName == "bexpr" {
		if err := gen("bexpr_native.go.txt", "bexprnative_test.go", ""); err != nil {
			return nil, err
		}
	}
	ov, _ := json.Marshal(map[string]interface{}{"Replace": overlay})
	ovPath := filepath.Join(work, "overlay.json")
	os.WriteFile(ovPath, ov, 0o644)
	// build the test binary once, run it once per replay file (fresh process state)
	bin := filepath.Join(work, "replay.test")
	args := []string{"test", "-c", "-vet=off", "-overlay", ovPath, "-o", bin}
	if race {
		args = append(args, "-race")
	}
	args = append(args, "./"+sub)
	cmd := exec.Command("go", args...)
	cmd.Dir = repoDir
	cmd.Env = append(os.Environ(), "GOFLAGS=-mod=mod", "GOPROXY=off", "GOSUMDB=off", "GOTOOLCHAIN=local")
	if b, err := cmd.CombinedOutput(); err != nil {
		return out, fmt.Errorf("building the native replay binary failed: %v\n%s", err, tail(string(b), 40))
	}
	type job struct{ f string }
	jobs := make(chan string, len(files))
	for _, f := range files {
		jobs <- f
	}
	close(jobs)
	var mu sync.Mutex
	var wg sync.WaitGroup
	txtAll := ""
	for w := 0; w < 8; w++ {
		wg.Add(1)
		go func() {
			defer wg.Done()
			for f := range jobs {
				c := exec.Command(bin, "-test.run", "^TestVerifReplay$", "-test.v", "-test.timeout", "10m")
				c.Dir = filepath.Join(repoDir, sub)
				c.Env = append(os.Environ(), "VERIF_REPLAY="+f)
				b, _ := c.CombinedOutput()
				txt := string(b)
				res := ""
				for _, line := range strings.Split(txt, "\n") {
					if strings.HasPrefix(line, "REPLAY-RESULT ") {
						rest := strings.TrimPrefix(line, "REPLAY-RESULT ")
						if sp := strings.IndexByte(rest, ' '); sp > 0 {
							res = rest[sp+1:]
						}
					}
				}
				if res == "ok" && strings.Contains(txt, "WARNING: DATA RACE") {
					res = "race: reported by go test -race"
				}
				if res == "" && strings.Contains(txt, "panic:") {
					res = "panic: " + firstLineWith(txt, "panic:")
				}
				mu.Lock()
				if res != "" {
					out[f] = res
				} else {
					txtAll += tail(txt, 10)
				}
				mu.Unlock()
			}
		}()
	}
	wg.Wait()
	txt := txtAll
	if len(out) < len(files) {
		return out, fmt.Errorf("replay run produced %d of %d results; output:\n%s", len(out), len(files), tail(txt, 40))
	}
	return out, nil
}

func firstLineWith(s, sub string) string {
	for _, l := range strings.Split(s, "\n") {
		if strings.Contains(l, sub) {
			return l
		}
	}
	return ""
}

func tail(s string, n int) string {
	ls := strings.Split(s, "\n")
	if len(ls) > n {
		ls = ls[len(ls)-n:]
	}
	return strings.Join(ls, "\n")
}

type evidence struct {
	PropertyID  string                 `json:"property_id"`
	Tier        string                 `json:"tier"`
	Seed        int64                  `json:"seed"`
	Level       string                 `json:"level"`
	Coverage    map[string]interface{} `json:"coverage"`
	Assumptions []string               `json:"assumptions"`
	WallS       float64                `json:"wall_s"`
	Violations  int                    `json:"violations"`
}

func envInt(name string, def int64) int64 {
	if v := os.Getenv(name); v != "" {
		if n, err := strconv.ParseInt(v, 10, 64); err == nil {
			return n
		}
	}
	return def
}

func cmdRun(args []string) int {
	if len(args) < 1 {
		fmt.Fprintln(os.Stderr, "usage: vcheck run <ID> [--tier quick|thorough] [--only regexp] [--workers n]")
		return 2
	}
	prop := args[0]
	tierName := os.Getenv("VERIF_TIER")
	only := ""
	workers := 0
	for k := 1; k < len(args); k++ {
		switch args[k] {
		case "--tier":
			k++
			tierName = args[k]
		case "--only":
			k++
			only = args[k]
		case "--workers":
			k++
			workers, _ = strconv.Atoi(args[k])
		}
	}
	if tierName != "thorough" {
		tierName = "quick"
	}
	tier := 0
	if tierName == "thorough" {
		tier = 1
	}
	seed := envInt("VERIF_SEED", 1)
	t0 := time.Now()
	spec, ok := properties[prop]
	if !ok {
		fmt.Fprintf(os.Stderr, "unknown property %s\n", prop)
		return 2
	}
	eng, err := sx.Load(repoDir, map[string]string{".": filepath.Join(harnessDir, "bexpr"), "grammar": filepath.Join(harnessDir, "grammar")})
	if err != nil {
		// The harness overlay no longer type-checks against /repo: the check cannot run.
		fmt.Fprintf(os.Stderr, "ENGINE-FAULT: cannot load /repo with harness overlay:\n%v\n", err)
		return 2
	}
	hs := eng.Harnesses(prop)
	if only != "" {
		re := regexp.MustCompile(only)
		var f []string
		for _, h := range hs {
			if re.MatchString(h) {
				f = append(f, h)
			}
		}
		hs = f
	}
	if len(hs) == 0 {
		fmt.Fprintf(os.Stderr, "ENGINE-FAULT: no harnesses for %s\n", prop)
		return 2
	}
	known := loadKnown()
	os.MkdirAll(filepath.Join(outDir, "replays", prop), 0o755)
	os.MkdirAll(filepath.Join(outDir, "evidence"), 0o755)
	// clear old replays of this property
	old, _ := filepath.Glob(filepath.Join(outDir, "replays", prop, "*.json"))
	for _, f := range old {
		os.Remove(f)
	}

	var (
		totalPaths, totalDecisions, totalInconcl, totalTrunc int
		totalSteps                                            int64
		q                                                     struct{ n, sat, unsat, unk, err int }
		solverT                                               time.Duration
		funcs                                                 = map[string]int64{}
		samples                                               []interface{}
		perHarness                                            []interface{}
		faults                                                []string
		vacuous                                               []string
		syncEvents                                            = map[string]int{}
		replaysByPkg                                          = map[string][]string{}
		replayMeta                                            = map[string]replayFile{}
		byStatus                                              = map[string]int{}
	)
	for _, h := range hs {
		cfg := sx.RunConfig{Workers: workers, Tier: tier, Seed: seed, AuditEvery: spec.auditEvery(tier), MaxAudits: spec.maxAudits(tier), TimeoutMs: spec.timeoutMs(tier), MaxPaths: spec.maxPaths(tier), StepBudget: spec.StepBudget}
		if spec.Deadline(tier) > 0 {
			cfg.Deadline = time.Now().Add(spec.Deadline(tier))
		}
		hr, err := eng.Explore(h, cfg)
		if err != nil {
			fmt.Fprintf(os.Stderr, "ENGINE-FAULT: %s: %v\n", h, err)
			return 2
		}
		fmt.Fprintf(os.Stderr, "[%s] %s paths=%d %v wall=%v queries=%d\n", prop, shortName(h), hr.Paths, hr.ByStatus, hr.Wall.Round(time.Millisecond), hr.Solver.Queries)
		totalPaths += hr.Paths
		totalDecisions += hr.Decisions
		totalSteps += hr.Steps
		q.n += hr.Solver.Queries
		q.sat += hr.Solver.SatN
		q.unsat += hr.Solver.UnsatN
		q.unk += hr.Solver.UnknownN
		q.err += hr.Solver.Errors
		solverT += hr.Solver.Time
		for k, v := range hr.ByStatus {
			byStatus[k] += v
		}
		for k, v := range hr.Functions {
			funcs[k] += v
		}
		for k, v := range hr.Events {
			syncEvents[k] += v
		}
		if hr.Truncated {
			totalTrunc++
		}
		totalInconcl += hr.ByStatus["inconclusive"] + hr.ByStatus["budget"]
		for _, inc := range hr.Inconclusive {
			faults = append(faults, fmt.Sprintf("%s: %s: %s", shortName(h), inc.Status, inc.Label))
			if inc.Stack != "" && os.Getenv("VERIF_DEBUG") != "" {
				fmt.Fprintln(os.Stderr, inc.Stack)
			}
		}
		// vacuity
		exp := eng.ExpectedCovers(h)
		for _, c := range exp {
			if hr.Covers[c] == 0 && len(hr.Violations) == 0 {
				vacuous = append(vacuous, shortName(h)+":"+c)
			}
		}
		perHarness = append(perHarness, map[string]interface{}{
			"harness": shortName(h), "paths": hr.Paths, "by_status": hr.ByStatus, "decisions": hr.Decisions,
			"queries": hr.Solver.Queries, "wall_s": hr.Wall.Seconds(), "covers": hr.Covers, "truncated": hr.Truncated,
		})
		nh := 0
		for _, s := range hr.Audits {
			if nh < 2 && len(samples) < 12 {
				samples = append(samples, map[string]interface{}{"harness": shortName(h), "status": s.Status, "branch_decisions": shortTr(s.Trace), "covers": s.Covers,
					"model_of_path_condition": modelOf(s), "replayed_natively": true})
				nh++
			}
		}
		for _, s := range hr.Samples {
			if nh < 2 && len(samples) < 12 {
				samples = append(samples, map[string]interface{}{"harness": shortName(h), "status": s.Status, "branch_decisions": shortTr(s.Trace), "symbolic_inputs": inputsOf(s)})
				nh++
			}
		}
		// violations -> replay files (at most 3 per label)
		perLabel := map[string]int{}
		for k, v := range hr.Violations {
			if perLabel[v.Label] >= 3 {
				continue
			}
			perLabel[v.Label]++
			rf := mkReplay(h, v, tier, seed, "fail", spec.ReplayRepeat)
			p := filepath.Join(outDir, "replays", prop, fmt.Sprintf("%s-%03d.json", shortName(h), k))
			b, _ := json.MarshalIndent(rf, "", " ")
			os.WriteFile(p, b, 0o644)
			replaysByPkg[pkgOf(h)] = append(replaysByPkg[pkgOf(h)], p)
			replayMeta[p] = rf
		}
		for k, a := range hr.Audits {
			rf := mkReplay(h, a, tier, seed, "ok", 1)
			p := filepath.Join(outDir, "replays", prop, fmt.Sprintf("audit-%s-%03d.json", shortName(h), k))
			b, _ := json.MarshalIndent(rf, "", " ")
			os.WriteFile(p, b, 0o644)
			replaysByPkg[pkgOf(h)] = append(replaysByPkg[pkgOf(h)], p)
			replayMeta[p] = rf
		}
	}

	// native replays
	confirmed, unconfirmed, known_, audited, auditBad := 0, 0, 0, 0, 0
	var violLines, knownLines []string
	seenKnown := map[string]bool{}
	for pkg, files := range replaysByPkg {
		res, err := runReplays(eng, pkg, files, spec.Race)
		if err != nil {
			fmt.Fprintf(os.Stderr, "ENGINE-FAULT: replay: %v\n", err)
			faults = append(faults, "replay: "+err.Error())
		}
		sort.Strings(files)
		for _, f := range files {
			rf := replayMeta[f]
			outc := res[f]
			if rf.Expect == "ok" {
				audited++
				if outc == "ok" {
					os.Remove(f)
					continue
				}
				if strings.HasPrefix(outc, "assert-failed: ") || strings.HasPrefix(outc, "panic:") || strings.HasPrefix(outc, "race:") {
					// the real code fails a property assertion on this concrete input
					// (process state or an order the executor did not draw): a violation
					// observed natively, reported with its replay
					lbl := strings.TrimPrefix(outc, "assert-failed: ")
					if kf := known.match(prop, rf.Harness, lbl); kf != nil {
						known_++
						continue
					}
					confirmed++
					violLines = append(violLines, fmt.Sprintf("VIOLATION property=%s replay=%s", prop, f))
					fmt.Fprintf(os.Stderr, "  violation (native audit) %s: %s\n", rf.Harness, outc)
					continue
				}
				auditBad++
				faults = append(faults, fmt.Sprintf("audit mismatch %s: executor said ok, native said %q", filepath.Base(f), outc))
				continue
			}
			reproduced := false
			switch {
			case rf.Kind == "panic":
				reproduced = strings.HasPrefix(outc, "panic:")
			default:
				// any property assertion of the same harness failing natively on the
				// counterexample confirms it (the label may differ when the real run
				// trips an earlier assertion of the harness)
				reproduced = strings.HasPrefix(outc, "assert-failed: ") || strings.HasPrefix(outc, "panic:") || (strings.HasPrefix(rf.Label, "monitor:") && strings.HasPrefix(outc, "race:"))
			}
			if !reproduced {
				unconfirmed++
				faults = append(faults, fmt.Sprintf("counterexample %s (%s) did not reproduce natively: %q", filepath.Base(f), rf.Label, outc))
				continue
			}
			if kf := known.match(prop, rf.Harness, rf.Label); kf != nil {
				known_++
				key := kf.Harness + "|" + kf.Label
				if !seenKnown[key] {
					seenKnown[key] = true
					knownLines = append(knownLines, fmt.Sprintf("KNOWN-FINDING: property=%s %s", prop, kf.What))
				}
				continue
			}
			confirmed++
			violLines = append(violLines, fmt.Sprintf("VIOLATION property=%s replay=%s", prop, f))
			fmt.Fprintf(os.Stderr, "  violation %s: %s -> native: %s\n", rf.Harness, rf.Label, outc)
		}
	}

	// evidence
	fnList := make([]string, 0, len(funcs))
	for f := range funcs {
		fnList = append(fnList, f)
	}
	sort.Strings(fnList)
	if faults == nil {
		faults = []string{}
	}
	if vacuous == nil {
		vacuous = []string{}
	}
	if len(samples) == 0 {
		samples = append(samples, "no completed path")
	}
	ev := evidence{
		PropertyID: prop, Tier: tierName, Seed: seed, Level: spec.Level,
		Coverage: map[string]interface{}{
			"states":                        totalPaths,
			"transitions":                   totalDecisions,
			"traces_validated_against_impl": audited + confirmed + known_,
			"samples":                       samples,
			"evaluations":                   totalPaths,
			"distinct_nontrivial":           byStatus["ok"] + byStatus["violation"] + byStatus["panic"],
			"rule":                          "one evaluation = one symbolic path (distinct vector of branch decisions) of a harness, each covering every value of the symbolic inputs consistent with its path condition; non-trivial = completed (status ok, violation or panic), i.e. not pruned as infeasible",
			"exhaustive":                    totalTrunc == 0 && totalInconcl == 0,
			"harnesses":                     perHarness,
			"paths_by_status":               byStatus,
			"functions_encoded":             fnList,
			"bounds":                        spec.Bounds[tier],
			"outside_claim":                 spec.Outside,
			"queries":                       map[string]int{"total": q.n, "sat": q.sat, "unsat": q.unsat, "unknown": q.unk, "error": q.err},
			"solver":                        "z3 4.8.12 (z3 -in, push/pop)",
			"solver_s":                      solverT.Seconds(),
			"ssa_instructions_executed":     totalSteps,
			"source_sha256_prefix":          eng.Sources,
			"load_s":                        eng.LoadTime.Seconds(),
			"inconclusive_paths":            totalInconcl,
			"truncated_harnesses":           totalTrunc,
			"engine_faults":                 faults,
			"vacuous_covers":                vacuous,
			"sync_events":                   syncEvents,
			"replays":                       map[string]int{"violations_confirmed": confirmed, "known_findings": known_, "not_reproduced": unconfirmed, "audited_ok_paths": audited, "audit_mismatches": auditBad},
			"technique":                     spec.Technique,
		},
		Assumptions: append([]string{
			"environment models (reflect, fmt, errors.Is, strings/bytealg, utf8, unicode.Is, regexp and strconv.ParseFloat native on concrete operands, mapstructure.WeakDecode string->scalar) are faithful; checked by native audit of sampled paths and by replay of every counterexample",
			"go/ssa (x/tools v0.29.0) and the executor implement Go semantics for the instruction kinds used",
			"z3 4.8.12 verdicts; any (error line or unknown makes the path inconclusive, never a pass",
		}, spec.Assumptions...),
		WallS:      time.Since(t0).Seconds(),
		Violations: confirmed,
	}
	b, _ := json.MarshalIndent(ev, "", " ")
	os.WriteFile(filepath.Join(outDir, "evidence", prop+".json"), b, 0o644)

	for _, l := range knownLines {
		fmt.Println(l)
	}
	for _, l := range violLines {
		fmt.Println(l)
	}
	fmt.Fprintf(os.Stderr, "[%s] tier=%s paths=%d decisions=%d queries=%d solver=%.1fs wall=%.1fs confirmed=%d known=%d unconfirmed=%d audits=%d/%d inconclusive=%d truncated=%d\n",
		prop, tierName, totalPaths, totalDecisions, q.n, solverT.Seconds(), time.Since(t0).Seconds(), confirmed, known_, unconfirmed, audited-auditBad, audited, totalInconcl, totalTrunc)
	if confirmed > 0 {
		return 1
	}
	if unconfirmed > 0 || auditBad > 0 || len(vacuous) > 0 || totalInconcl > spec.MaxInconclusive || (totalTrunc > 0 && !spec.AllowTruncation) {
		for _, f := range faults {
			fmt.Fprintln(os.Stderr, "ENGINE-FAULT:", f)
		}
		for _, v := range vacuous {
			fmt.Fprintln(os.Stderr, "ENGINE-FAULT: vacuous cover", v)
		}
		return 2
	}
	return 0
}

func shortTr(t []int32) []int32 {
	if len(t) > 48 {
		return t[:48]
	}
	return t
}

// modelOf lists the symbolic inputs of a path with the values the solver gave them.
func modelOf(r sx.PathResult) []string {
	var out []string
	for _, in := range r.Inputs {
		if len(out) >= 24 {
			out = append(out, "...")
			break
		}
		if in.Kind == "len" || in.Kind == "choose" {
			out = append(out, fmt.Sprintf("%s=%d", in.Kind, in.Len))
		} else {
			out = append(out, fmt.Sprintf("%s=%d", in.Name, r.Model[in.Name]))
		}
	}
	return out
}

func inputsOf(r sx.PathResult) []string {
	var out []string
	for _, in := range r.Inputs {
		if in.Kind == "len" || in.Kind == "choose" {
			out = append(out, fmt.Sprintf("%s=%d", in.Kind, in.Len))
		} else {
			out = append(out, in.Name)
		}
	}
	return out
}

// cmdReplay re-runs one replay file natively and prints the outcome.
func cmdReplay(args []string) int {
	if len(args) < 1 {
		fmt.Fprintln(os.Stderr, "usage: vcheck replay <path>")
		return 2
	}
	if abs, err := filepath.Abs(args[0]); err == nil {
		args[0] = abs
	}
	b, err := os.ReadFile(args[0])
	if err != nil {
		fmt.Fprintln(os.Stderr, err)
		return 2
	}
	var rf replayFile
	if err := json.Unmarshal(b, &rf); err != nil {
		fmt.Fprintln(os.Stderr, err)
		return 2
	}
	eng, err := sx.Load(repoDir, map[string]string{".": filepath.Join(harnessDir, "bexpr"), "grammar": filepath.Join(harnessDir, "grammar")})
	if err != nil {
		fmt.Fprintln(os.Stderr, err)
		return 2
	}
	os.MkdirAll(filepath.Join(outDir, "replays"), 0o755)
	res, err := runReplays(eng, rf.Package, []string{args[0]}, false)
	if err != nil {
		fmt.Fprintln(os.Stderr, err)
		return 2
	}
	fmt.Printf("harness=%s expected=%q native=%q\n", rf.Harness, rf.Label, res[args[0]])
	if res[args[0]] == "ok" {
		return 0
	}
	return 1
}
