package bexpr

// C03 — not/and/or are truth-functional, short-circuit left to right, errors propagate.
// Leaves are "outcome gadgets": expressions whose outcome on the symbolic datum
// is free (true / false / error, through several mechanisms). The composite's
// outcome must equal the 3x3 table applied to the leaves evaluated on their own.

const nGadgets = 8

// gadget returns an expression over keys prefixed by p and fills d so that the
// expression's outcome is left to the solver.
func gadget(g int, p string, d map[string]interface{}) string {
	switch g {
	case 0: // bool true/false, or a slice (error)
		if vBool() {
			d[p+"v"] = vBool()
		} else {
			d[p+"v"] = []int{1}
		}
		return p + "v == true"
	case 1: // absent map key => disposition (no error), or present with free value
		m := map[string]interface{}{}
		if vBool() {
			m["k"] = vInt8()
		}
		d[p+"m"] = m
		return p + "m.k != 1"
	case 2: // absent top-level key => error, or present
		if vBool() {
			d[p+"t"] = vUint8()
		}
		return p + "t == 7"
	case 3: // quantifier over a list of free length and content
		n := vChoose(3)
		l := make([]interface{}, 0, 2)
		for i := 0; i < n; i++ {
			if vBool() {
				l = append(l, vInt8())
			} else {
				l = append(l, "s") // string element: `x == 1`... a string never errors on ==
			}
		}
		d[p+"l"] = l
		return "(any " + p + "l as x { x == 1 })"
	case 4: // regexp over a symbolic subject, or a bad pattern (error)
		d[p+"s"] = vString(1)
		if vBool() {
			return p + "s matches \"^a\""
		}
		return p + "s matches \"(\""
	case 5: // in over a typed slice; literal invalid for the element type => error
		d[p+"i"] = []int8{vInt8()}
		if vBool() {
			return "3 in " + p + "i"
		}
		return "x in " + p + "i"
	case 6: // a negated operator on a resolved value: free on a string, an error on an int
		if vBool() {
			d[p+"n"] = vString(1)
		} else {
			d[p+"n"] = vInt8()
		}
		switch vChoose(5) {
		case 0:
			return p + "n != 1"
		case 1:
			return p + "n != abc"
		case 2:
			return p + "n is not empty"
		case 3:
			return "\"7\" not in " + p + "n"
		}
		return p + "n not matches \"7\""
	default: // is empty on string (true/false) or on int (error)
		if vBool() {
			d[p+"e"] = vString(1)
		} else {
			d[p+"e"] = 5
		}
		return p + "e is empty"
	}
}

func tblNot(a int) int {
	switch a {
	case oTrue:
		return oFalse
	case oFalse:
		return oTrue
	}
	return a
}
func tblAnd(a, b int) int {
	if a == oFalse || a == oError {
		return a
	}
	return b
}
func tblOr(a, b int) int {
	if a == oTrue || a == oError {
		return a
	}
	return b
}

func leafO(expr string, d interface{}) int {
	o, res, err := evalO(mustCreate(expr), d)
	vAssume(o != oPanic) // totality is C09's subject
	vAssert(err == nil || !res, "leaf: error with true")
	return o
}

func compO(expr string, d interface{}) int {
	o, res, err := evalO(mustCreate(expr), d)
	vAssert(o != oPanic, "composite panicked: "+expr)
	vAssert(err == nil || !res, "composite returned an error with true: "+expr)
	return o
}

// H_C03_step: one step of the recursion for every pair of leaf outcomes.
func H_C03_step() {
	d := map[string]interface{}{}
	ea := gadget(vChoose(nGadgets), "a", d)
	eb := gadget(vChoose(nGadgets), "b", d)
	oa, ob := leafO(ea, d), leafO(eb, d)
	vAssert(compO(ea+" and "+eb, d) == tblAnd(oa, ob), "and table")
	vAssert(compO(ea+" or "+eb, d) == tblOr(oa, ob), "or table")
	vAssert(compO("not "+ea, d) == tblNot(oa), "not table")
	vAssert(compO("not not "+ea, d) == oa, "double negation")
	vAssert(compO("not ("+ea+" and "+eb+")", d) == compO("not "+ea+" or not "+eb, d), "De Morgan and")
	vAssert(compO("not ("+ea+" or "+eb+")", d) == compO("not "+ea+" and not "+eb, d), "De Morgan or")
	if oa == oFalse && ob == oError {
		vCover("and short-circuits over an erroring right operand")
	}
	if oa == oTrue && ob == oError {
		vCover("or short-circuits over an erroring right operand")
	}
	if oa == oError {
		vCover("left error propagates")
	}
	vCover("reached")
}

// H_C03_compose: depth-3 skeletons over three leaves; the step composes.
func H_C03_compose() {
	d := map[string]interface{}{}
	ng := nGadgets
	if vTier() == 0 {
		ng = 3
	} else {
		ng = 5
	}
	ea := gadget(vChoose(ng), "a", d)
	eb := gadget(vChoose(ng), "b", d)
	ec := gadget(vChoose(ng), "c", d)
	oa, ob, oc := leafO(ea, d), leafO(eb, d), leafO(ec, d)
	switch vChoose(8) {
	case 0:
		vAssert(compO(ea+" and "+eb+" or "+ec, d) == tblOr(tblAnd(oa, ob), oc), "A and B or C")
	case 1:
		vAssert(compO(ea+" or "+eb+" and "+ec, d) == tblOr(oa, tblAnd(ob, oc)), "A or B and C")
	case 2:
		vAssert(compO(ea+" and ("+eb+" or "+ec+")", d) == tblAnd(oa, tblOr(ob, oc)), "A and (B or C)")
	case 3:
		vAssert(compO("not ("+ea+" and not "+eb+") or "+ec, d) == tblOr(tblNot(tblAnd(oa, tblNot(ob))), oc), "not (A and not B) or C")
	case 4:
		vAssert(compO(ea+" and "+eb+" and "+ec, d) == tblAnd(oa, tblAnd(ob, oc)), "A and B and C")
	case 5:
		vAssert(compO(ea+" or "+eb+" or "+ec, d) == tblOr(oa, tblOr(ob, oc)), "A or B or C")
	case 6:
		vAssert(compO("not "+ea+" or "+eb+" and not "+ec, d) == tblOr(tblNot(oa), tblAnd(ob, tblNot(oc))), "not A or B and not C")
	default:
		vAssert(compO("("+ea+" or "+eb+") and not ("+ec+" or "+ea+")", d) == tblAnd(tblOr(oa, ob), tblNot(tblOr(oc, oa))), "(A or B) and not (C or A)")
	}
	vCover("reached")
}

// Leaves that share selectors (and differ only in operator, literal or
// spelling): a parse- or evaluation-time shortcut keyed on the selector or on
// a rendering of the operand would confuse them.
var sharedLeaves = []string{
	`s matches "^a"`, `s matches "b$"`, `s matches "("`, `s == "a"`, `s == "b"`, `s != "a"`,
	`m["b.c"] == 1`, `m.b.c == 1`, `"a" in s`, `s is empty`, `s not matches "^a"`, `"/m/b/c" == 1`,
	`m["b/c"] == 1`, `"/m/b~1c" != 2`, `(any l as s { s == 1 })`, `(all l as m { m != 1 })`, `(any l as i, v { v == 1 and i == 0 })`, `v == 1`, `i == 0`,
}

func H_C03_shared() {
	d := map[string]interface{}{
		"s": vString(1),
		"m": map[string]interface{}{"b.c": vInt8(), "b": map[string]interface{}{"c": vInt8()}, "b/c": vInt8()},
		"l": []interface{}{vInt8(), vInt8()}, "v": vInt8(), "i": vInt8(),
	}
	ea := sharedLeaves[vChoose(len(sharedLeaves))]
	eb := sharedLeaves[vChoose(len(sharedLeaves))]
	oa, ob := leafO(ea, d), leafO(eb, d)
	vAssert(compO(ea+" and "+eb, d) == tblAnd(oa, ob), "and table: "+ea+" / "+eb)
	vAssert(compO(ea+" or "+eb, d) == tblOr(oa, ob), "or table: "+ea+" / "+eb)
	vAssert(compO(ea+" or ("+ea+" and "+eb+")", d) == tblOr(oa, tblAnd(oa, ob)), "A or (A and B): "+ea+" / "+eb)
	vCover("reached")
}
