package bexpr

// C11 (public side): CreateEvaluator forwards the budget to the parser.

import (
	"strings"

	"github.com/hashicorp/go-bexpr/grammar"
)

var corpusC11b = []string{`a==1`, `a == 1 or b == 2`, `(a==1)`, `a ==`, `(1 in foo[1]`, `any a as x { x == 1 }`}

func H_C11_create() {
	nc := len(corpusC11b)
	if vTier() == 0 {
		nc = 3
	}
	s := corpusC11b[vChoose(nc)]
	n := vUint64()
	w := uint64(6)
	if vTier() > 0 {
		w = 64
	}
	// thresholds of the corpus lie between 400 and 9000 steps
	vAssume(n <= w || n >= 1<<62 || (n >= 400 && n <= 400+w) || (n%500 <= 2 && n < 10000))
	// an earlier unlimited creation of the same text must not matter
	CreateEvaluator(s)
	_, perr := grammar.Parse("", []byte(s), grammar.MaxExpressions(n))
	ev, cerr := CreateEvaluator(s, WithMaxExpressions(n))
	vAssert((perr == nil) == (cerr == nil), s+": CreateEvaluator honours the budget exactly as the parser does")
	vAssert((cerr == nil) == (ev != nil), s+": evaluator xor error under a budget")
	if perr != nil && cerr != nil {
		vAssert(strings.Contains(perr.Error(), "max number") == strings.Contains(cerr.Error(), "max number"), s+": same kind of error")
	}
	f, ferr := CreateFilter(s)
	_, uerr := CreateEvaluator(s)
	vAssert((ferr == nil) == (uerr == nil) && (f != nil) == (ferr == nil), s+": CreateFilter is unlimited")
	vCover("reached")
}
