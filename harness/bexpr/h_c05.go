package bexpr

// C05 — absent map keys follow the documented table; unknown-value substitutes exactly.

import (
	"encoding/json"

	"github.com/hashicorp/go-bexpr/grammar"
)

type sC05 struct {
	A int8
	M map[string]interface{}
}

// sC05t reaches its map only under a renamed tag.
type sC05t struct {
	Labels map[string]interface{} `bexpr:"labels"`
}

// sC05x is sC05 with the extra field X (the "twin" used by the substitution oracle).
type sC05x struct {
	A int8
	M map[string]interface{}
	X interface{}
}

var dispC05 = [8]bool{false, true, false, true, true, false, false, true}

// valC05: the value stored under the (possibly colliding) key.
func valC05() interface{} {
	switch vChoose(3) {
	case 0:
		return vInt8()
	case 1:
		return vString(1)
	default:
		return []interface{}{vInt8()}
	}
}

// H_C05_table: where the absent step is decides between "disposition" and "error".
func H_C05_table() {
	op := vChoose(8)
	k := vString(1) // the solver decides whether it collides with the requested part "x"
	v := valC05()
	var d, dPresent interface{}
	sel := ""
	expectDisp := false
	form := vChoose(12)
	what := ""
	switch form {
	case 0:
		d, dPresent, sel, expectDisp, what = map[string]interface{}{"m": map[string]interface{}{k: v}}, map[string]interface{}{"m": map[string]interface{}{"x": v}}, "m.x", true, "leaf absent in map"
	case 1:
		d, dPresent, sel, expectDisp, what = map[string]interface{}{"a": map[string]interface{}{"m": map[string]interface{}{k: v}}}, map[string]interface{}{"a": map[string]interface{}{"m": map[string]interface{}{"x": v}}}, `a.m["x"]`, true, "leaf absent in nested map"
	case 2:
		d, dPresent, sel, expectDisp, what = map[string]interface{}{k: v}, map[string]interface{}{"x": v}, "x", false, "absent top-level key"
	case 3:
		d, dPresent, sel, expectDisp, what = map[string]interface{}{"m": map[string]interface{}{k: map[string]interface{}{"y": v}}}, map[string]interface{}{"m": map[string]interface{}{"x": map[string]interface{}{"y": v}}}, "m.x.y", false, "absent intermediate key"
	case 4:
		d, dPresent, sel, expectDisp, what = sC05{M: map[string]interface{}{k: v}}, sC05{M: map[string]interface{}{"x": v}}, "M.x", true, "leaf absent in map field of struct"
	case 5:
		d, dPresent, sel, expectDisp, what = map[string]interface{}{"l": []interface{}{map[string]interface{}{k: v}}}, map[string]interface{}{"l": []interface{}{map[string]interface{}{"x": v}}}, `"/l/0/x"`, true, "leaf absent in map inside list"
	case 6:
		d, dPresent, sel, expectDisp, what = map[string]interface{}{"m": map[string]int8(nil)}, nil, "m.x", true, "leaf absent in nil map"
	case 7:
		d, dPresent, sel, expectDisp, what = map[string]map[string]nStr{"m": {k: "z"}}, map[string]map[string]nStr{"m": {"x": "z"}}, "m.x", true, "leaf absent in typed map"
	case 10: // integer-keyed parent: the part is coerced to the key type, and is absent
		d, dPresent, sel, expectDisp, what = map[string]interface{}{"p": map[int]interface{}{7: v}}, nil, "p.443", true, "leaf absent in an int-keyed map"
		k = "-"
	case 11:
		d, dPresent, sel, expectDisp, what = map[string]interface{}{"p": map[nKeyStr]nStr{nKeyStr(k): "z"}}, map[string]interface{}{"p": map[nKeyStr]nStr{"x": "z"}}, "p.x", true, "leaf absent in a named-string-keyed typed map"
	case 9:
		d, dPresent, sel, expectDisp, what = map[string]interface{}{"s": &sC05t{Labels: map[string]interface{}{k: v}}}, map[string]interface{}{"s": &sC05t{Labels: map[string]interface{}{"x": v}}}, "s.labels.x", true, "leaf absent in a map reached through a renamed struct field"
	default:
		d, dPresent, sel, expectDisp, what = map[nKeyStr]interface{}{"m": map[nKeyStr]interface{}{nKeyStr(k): v}}, map[nKeyStr]interface{}{"m": map[nKeyStr]interface{}{"x": v}}, "m.x", true, "leaf absent in named-string-keyed map"
	}
	lit := "1"
	if op >= 6 && vBool() {
		lit = `"("` // a pattern that does not compile: irrelevant when the key is absent
	}
	ev := mustCreate(exprFor(op, sel, lit))
	o, res, _ := evalO(ev, d)
	vAssume(o != oPanic)
	what = what + ", " + opText[op] + " " + lit
	if k != "x" || form == 6 {
		if expectDisp {
			vAssert(o != oError, what+": not an error")
			vAssert(res == dispC05[op], what+": documented truth value")
			vCover("disposition")
		} else {
			vAssert(o == oError, what+": is an error")
			vCover("error")
		}
	} else if dPresent != nil {
		o2, _, _ := evalO(mustCreate(exprFor(op, sel, lit)), dPresent)
		vAssert(o == o2, what+": present key evaluates normally")
		vCover("present")
	}
}

// H_C05_errors: the other failure modes are errors for every operator.
func H_C05_errors() {
	op := vChoose(8)
	var d interface{}
	sel, what := "", ""
	switch vChoose(6) {
	case 0:
		d, sel, what = map[string]interface{}{"s": sC05{A: vInt8()}}, "s.x", "absent struct field"
	case 1:
		d, sel, what = sC05{A: vInt8()}, "x", "absent top-level struct field"
	case 2:
		d, sel, what = map[string]interface{}{"l": []int8{vInt8()}}, "l.1", "index out of range"
	case 3:
		d, sel, what = map[string]interface{}{"m": vInt8()}, "m.x", "step into a scalar"
	case 4:
		d, sel, what = map[string]interface{}{"l": []int8{vInt8()}}, "l.x", "non-numeric index"
	default:
		d, sel, what = map[string]interface{}{"m": nil}, "m.x", "step into nil"
	}
	o, _, _ := evalO(mustCreate(exprFor(op, sel, "1")), d)
	vAssert(o == oError, what+", "+opText[op]+": is an error (got "+oName(o)+")")
	vCover("reached")
}

// H_C05_quantifier: all/any over an absent collection.
func H_C05_quantifier() {
	k := vString(1)
	d := map[string]interface{}{"m": map[string]interface{}{k: []int8{vInt8()}}}
	oAll, rAll, _ := evalO(mustCreate("all m.x as e { e == 1 }"), d)
	oAny, rAny, _ := evalO(mustCreate("any m.x as e { e == 1 }"), d)
	if k != "x" {
		vAssert(oAll != oError && rAll, "all over an absent map key is true")
		vAssert(oAny != oError && !rAny, "any over an absent map key is false")
		vCover("absent")
	} else {
		vCover("present")
	}
	oe, _, _ := evalO(mustCreate("all x as e { e == 1 }"), d)
	vAssert(oe == oError || k == "x", "all over an absent top-level key is an error")
	// absent key reached through a quantifier-bound alias
	d2 := map[string]interface{}{"l": []interface{}{map[string]interface{}{k: vInt8()}}}
	o3, r3, _ := evalO(mustCreate("any l as e { e.x != 1 }"), d2)
	o4, r4, _ := evalO(mustCreate("all l as e { e.x == 1 }"), d2)
	if k != "x" {
		vAssert(o3 != oError && r3, "alias: != on an absent key is true")
		vAssert(o4 != oError && !r4, "alias: == on an absent key is false")
	}
}

func unknownC05() interface{} {
	switch vChoose(8) {
	case 5:
		return json.Number([]string{"5", "05", "1.5", "x"}[vChoose(4)])
	case 6:
		return vFloat64()
	case 7:
		return nInt(vInt64())
	case 0:
		return vInt64()
	case 1:
		return vString(1)
	case 2:
		return vBool()
	case 3:
		return vUint8()
	default:
		return nil
	}
}

// H_C05_substitution: with WithUnknownValue(u) a selector failing only because
// a key or field is absent evaluates exactly as if it resolved to u.
func H_C05_substitution() {
	op := vChoose(8)
	u := unknownC05()
	v := vInt8()
	var d, dPlus interface{}
	sel, what := "", ""
	switch vChoose(7) {
	case 0:
		d, dPlus, sel, what = map[string]interface{}{"m": map[string]interface{}{"o": v}}, map[string]interface{}{"m": map[string]interface{}{"o": v, "x": u}}, "m.x", "leaf absent in map"
	case 1:
		d, dPlus, sel, what = map[string]interface{}{"o": v}, map[string]interface{}{"o": v, "x": u}, "x", "absent top-level key"
	case 2:
		d, dPlus, sel, what = map[string]interface{}{"m": map[string]interface{}{"o": v}}, map[string]interface{}{"m": map[string]interface{}{"o": v, "x": map[string]interface{}{"y": u}}}, "m.x.y", "absent intermediate key"
	case 3:
		d, dPlus, sel, what = sC05{A: v}, sC05x{A: v, X: u}, "X", "absent struct field"
	case 4:
		d, dPlus, sel, what = map[string]interface{}{"s": &sC05{A: v}}, map[string]interface{}{"s": &sC05x{A: v, X: u}}, "s.X", "absent field behind a pointer"
	case 5:
		d, dPlus, sel, what = map[string]interface{}{"l": []interface{}{map[string]interface{}{"o": v}}}, map[string]interface{}{"l": []interface{}{map[string]interface{}{"o": v, "x": u}}}, "l.0.x", "absent key inside a list element"
	default:
		// every selector resolves: the option must not matter
		d, dPlus, sel, what = map[string]interface{}{"m": map[string]interface{}{"x": v}}, map[string]interface{}{"m": map[string]interface{}{"x": v}}, "m.x", "all selectors resolve"
	}
	expr := exprFor(op, sel, "1")
	o1, _, _ := evalO(mustCreate(expr, WithUnknownValue(u)), d)
	o2, _, _ := evalO(mustCreate(expr), dPlus)
	vAssume(o1 != oPanic && o2 != oPanic)
	vAssert(o1 == o2, what+", "+opText[op]+": evaluates as if resolved to the unknown value")
	vCover("reached")
}

// H_C05_substitution_quant: the unknown value reaches selectors inside quantifier bodies
// and quantified collections.
func H_C05_substitution_quant() {
	u := unknownC05()
	v := vInt8()
	op := vChoose(8)
	d := map[string]interface{}{"l": []interface{}{map[string]interface{}{"o": v}, map[string]interface{}{"o": v}}}
	dPlus := map[string]interface{}{"l": []interface{}{map[string]interface{}{"o": v, "x": u}, map[string]interface{}{"o": v, "x": u}}}
	q := "any"
	if vBool() {
		q = "all"
	}
	expr := q + " l as e { " + exprFor(op, "e.x", "1") + " }"
	o1, _, _ := evalO(mustCreate(expr, WithUnknownValue(u)), d)
	o2, _, _ := evalO(mustCreate(expr), dPlus)
	vAssume(o1 != oPanic && o2 != oPanic)
	vAssert(o1 == o2, "in quantifier body, "+opText[op]+": evaluates as if resolved to the unknown value")
	// still out-of-range / wrong-kind steps are errors
	o3, _, _ := evalO(mustCreate(exprFor(op, "l.7", "1"), WithUnknownValue(u)), d)
	vAssert(o3 == oError, "index out of range stays an error under an unknown value")
	vCover("reached")
}

var _ = grammar.MatchEqual

// H_C05_history: the table holds call after call — data of one Go type but
// different shapes evaluated in sequence (same selector, same evaluator or
// fresh ones) each get their own verdict.
func H_C05_history() {
	op := vChoose(8)
	v := vInt8()
	mk := func(c int) (interface{}, int) { // datum, expectation: 0 disposition, 1 error, 2 present
		switch c {
		case 0:
			return map[string]interface{}{"m": map[string]interface{}{"o": v}}, 0
		case 1:
			return map[string]interface{}{"o": v}, 1
		case 2:
			return map[string]interface{}{"m": v}, 1
		default:
			return map[string]interface{}{"m": map[string]interface{}{"x": v}}, 2
		}
	}
	d1, x1 := mk(vChoose(4))
	d2, x2 := mk(vChoose(4))
	ev := mustCreate(exprFor(op, "m.x", "1"))
	ev2 := ev
	if vBool() {
		ev2 = mustCreate(exprFor(op, "m.x", "1"))
	}
	chk := func(o int, res bool, x int, which string) {
		switch x {
		case 0:
			vAssert(o != oError && res == dispC05[op], which+" call, "+opText[op]+": absent leaf in a map follows the table")
		case 1:
			vAssert(o == oError, which+" call, "+opText[op]+": absent intermediate / scalar step is an error")
		}
	}
	o1, r1, _ := evalO(ev, d1)
	o2, r2, _ := evalO(ev2, d2)
	chk(o1, r1, x1, "first")
	chk(o2, r2, x2, "second")
	vCover("reached")
}
