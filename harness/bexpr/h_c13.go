package bexpr

import "encoding/json"

// C13 — evaluation is pure and history-independent; Expression() returns the source.

// H_C13_history: after any two earlier calls (mixed data and outcomes) the
// third call returns what a fresh evaluator returns; the datum is never written.
// scoping-sensitive expressions: a quantifier binds a name that is also a
// top-level key used outside its braces — state left behind by one call (a
// binding that survives an error, say) shows in the next.
var exprsC13scope = []string{
	`s == "a" or any l as s { s matches "^w" }`, `n == 1 or any m as n, v { v == 1 }`, `(all l as f { f == 1 }) or f == 1.5`,
	`any l as x { any m as x, v { v == 1 } } or s == "a"`, `(any ts as s { s == 1 }) or s matches "a"`, `not (any l as n { n == "x" }) and n == 1`,
}

// rootWrites counts the monitored writes that hit the monitored roots (here:
// the datum); writes to package globals are C12's subject, not C13's.
func rootWrites(w []string) int {
	n := 0
	for _, x := range w {
		if len(x) >= 10 && x[:10] == "same-value" {
			continue // the cell was overwritten with what it held: not a modification
		}
		for i := 0; i+4 <= len(x); i++ {
			if x[i:i+4] == "root" {
				n++
				break
			}
		}
	}
	return n
}

func H_C13_history() {
	ne := len(exprsC12)
	ei := vChoose(ne + len(exprsC13scope))
	var expr string
	if ei < ne {
		expr = exprsC12[ei]
	} else {
		expr = exprsC13scope[ei-ne]
	}
	opts := optsC12(vChoose(4))
	ev, err := CreateEvaluator(expr, opts...)
	vAssume(err == nil)
	k := 2
	if vTier() > 0 {
		k = 3
	}
	var last interface{}
	for i := 0; i < k; i++ {
		var d interface{}
		nv := 4
		if i == 0 {
			nv = 5 // the UseNumber document as first datum only (keeps the product of histories small)
		}
		switch vChoose(nv) {
		case 4: // a document decoded with UseNumber: json.Number leaves inside lists and maps
			d = map[string]interface{}{"s": "a", "n": json.Number("1"), "f": json.Number("1.5"), "l": []interface{}{json.Number("1"), "x", json.Number("x")}, "m": map[string]interface{}{"a": json.Number("2")}, "ts": []interface{}{json.Number("7")}}
		case 3: // same keys, other kinds: a cache keyed by the expression alone would go stale
			d = map[string]interface{}{"s": []byte("a"), "n": "1", "f": vFloat32(), "l": []string{"x", "1"}, "m": map[string]interface{}{"a": "1"}, "ts": []interface{}{"q"}}
		case 0:
			d = datumC12()
		case 1:
			d = map[string]interface{}{"s": vInt8(), "l": vString(1), "m": []int{1}, "f": vInt8(), "n": 1.5} // ill-typed for most expressions: errors
		default:
			d = map[string]interface{}{"s": "a", "n": int8(1), "f": 1.5, "l": []interface{}{int8(1)}, "m": map[string]interface{}{"a": int8(2)}, "ts": []string{"q"}}
		}
		vMonitorStart(d)
		o, _, _ := evalO(ev, d)
		w := vMonitorStop()
		vAssert(rootWrites(w) == 0, "monitor: Evaluate modified the datum: "+expr)
		if i == k-1 {
			fresh, _ := CreateEvaluator(expr, opts...)
			of, _, _ := evalO(fresh, d)
			vAssert(o == of, "after earlier calls, Evaluate returns what a fresh evaluator returns: "+expr)
		}
		last = d
	}
	_ = last
	vCover("reached")
}

// H_C13_execute: Execute never writes its input and keeps no state.
func H_C13_execute() {
	expr := []string{`X == 1`, `X != 1`, `1 in X`, `X matches "^a"`}[vChoose(4)]
	f, err := CreateFilter(expr)
	vAssume(err == nil)
	in := []eC17{{ID: 1, X: elemC06()}, {ID: 2, X: elemC06()}, {ID: 3, X: elemC06()}, {ID: 4, X: elemC06()}}
	var data interface{} = in
	switch vChoose(3) {
	case 1:
		data = map[string]eC17{"a": in[0], "b": in[1], "c": in[2]}
	case 2:
		data = []*eC17{&in[0], &in[1], &in[2]}
	}
	vMonitorStart(data)
	r1, e1 := f.Execute(data)
	w := vMonitorStop()
	vAssert(rootWrites(w) == 0, "monitor: Execute modified its input: "+expr)
	for i := range in {
		vAssert(in[i].ID == i+1, "Execute reordered or overwrote input elements: "+expr)
	}
	r2, e2 := f.Execute(data)
	vAssert((e1 == nil) == (e2 == nil), "Execute twice: same error-or-not")
	if s1, ok := r1.([]eC17); ok && e2 == nil {
		s2 := r2.([]eC17)
		same := len(s1) == len(s2)
		for i := 0; same && i < len(s1); i++ {
			same = s1[i].ID == s2[i].ID
		}
		vAssert(same, "Execute twice on one input: same selection: "+expr)
	}
	vCover("reached")
}

// H_C13_expression: Expression() returns the creation string byte for byte.
func H_C13_expression() {
	var s string
	switch vChoose(5) {
	case 4: // two adjacent free bytes between tokens and at the end (CR LF, for one)
		s = "a ==" + vStringN(2) + "1" + vString(2)
	case 0:
		s = "x == \"" + vStringN(2) + "\""
	case 1:
		s = vString(1) + "a" + vString(1) + "== 1" + vString(1)
	case 2:
		s = " a  ==\t1 " + vString(1)
	default:
		s = "a == `" + vStringN(2) + "` or not b in c"
	}
	ev, err := CreateEvaluator(s)
	if err != nil {
		vAssert(ev == nil, "error with a nil evaluator")
		vCover("rejected")
		return
	}
	vAssert(ev.Expression() == s, "Expression() returns the creation string byte for byte")
	f, ferr := CreateFilter(s)
	vAssert(ferr == nil && f != nil, "CreateFilter accepts what CreateEvaluator accepts")
	vCover("accepted")
}
