package bexpr

// C12 — one Evaluator or Filter can be shared by concurrent goroutines.
// Decided by an effect argument (DESIGN.md §3 C12): no path of Evaluate /
// Execute / CreateEvaluator writes a memory cell that existed before the call
// (evaluator, syntax tree, package globals, datum) outside a write lock,
// sync.Once.Do or a sync/atomic primitive. On the unchanged tree no path
// synchronises at all, so concurrent calls share read-only state only and
// each returns what it returns sequentially. Where a change introduces
// synchronisation, writes ordered by it are accepted (recorded in the
// evidence as sync events); lock-free reads of lock-protected cells and the
// interleaving of critical sections are then outside the claim.

type wrapC12 struct{ V map[string]interface{} }

func datumC12() map[string]interface{} {
	return map[string]interface{}{
		"s": vString(1), "n": vInt8(), "f": vFloat64(),
		"l":  []interface{}{vInt8(), "x"},
		"m":  map[string]interface{}{"a": vInt8(), "b": "y"},
		"ts": []string{"p", "q"},
		"w":  wrapC12{V: map[string]interface{}{"k": vInt8()}},
		"d3": map[string]interface{}{"b": map[string]interface{}{"c": []interface{}{vInt8()}, "m": map[string]interface{}{"k": vInt8()}}},
	}
}

var exprsC12 = []string{
	`s matches "^a"`, `s not matches "b$"`, `n == 1`, `f == 1.5`, `"x" in l`, `1 in l`, `q in ts`, `"a" in m`, `s in "abc"`,
	`m.a != 1`, `m.zz == 1`, `l is not empty`, `any l as x { x == 1 }`, `all m as k, v { k != "z" and v != 1 }`,
	`any l as i, x { i == 0 or x == "x" }`, `n == 1 and s matches "a" or not (f == 2)`, `zz == 1`, `s matches "("`, `all ts as t { t matches "^[pq]$" }`,
	`w.V.k == 1`, `"/m/a" == 1`, `f == 0.1`, `f != "1e300"`, `"1" in l`,
	// quantified selectors of three parts: the parser leaves spare capacity in their Path
	`any d3.b.c as x { x == 1 }`, `all d3.b.m as k, v { v != 1 }`, `any "/d3/b/c" as i, x { x == 1 }`,
}

func optsC12(c int) []Option {
	switch c {
	case 1:
		return []Option{WithUnknownValue(vInt8())}
	case 2:
		return []Option{WithHookFn(hookUnwrapC18), WithTagName("bexpr")}
	case 3:
		return []Option{WithUnknownValue("u"), WithMaxExpressions(100000), WithHookFn(hookIdentityC18)}
	}
	return nil
}

// H_C12_evaluate: first use and second use of one evaluator write nothing that
// existed before the call and perform no synchronisation.
func H_C12_evaluate() {
	expr := exprsC12[vChoose(len(exprsC12))]
	ev, err := CreateEvaluator(expr, optsC12(vChoose(4))...)
	vAssume(err == nil)
	d := datumC12()
	vMonitorStart(ev, d)
	o1, _, _ := evalO(ev, d)
	w1 := vMonitorStop()
	vAssert(len(w1) == 0, "monitor: first Evaluate writes to memory that existed before the call: "+expr)
	vMonitorStart(ev, d)
	o2, _, _ := evalO(ev, d)
	w2 := vMonitorStop()
	vAssert(len(w2) == 0, "monitor: second Evaluate writes to memory that existed before the call: "+expr)
	vAssert(o1 == o2, "second use returns what the first use returned: "+expr)
	vConcurrent(func() { evalO(ev, d) }, 4)
	vCover("reached")
}

// H_C12_filter: the same for Filter.Execute.
func H_C12_filter() {
	expr := []string{`X == 1`, `X matches "^a"`, `any X as e { e == 1 }`, `1 in X`}[vChoose(4)]
	f, err := CreateFilter(expr)
	vAssume(err == nil)
	in := []eC17{{ID: 1, X: elemC06()}, {ID: 2, X: "ab"}, {ID: 3, X: []interface{}{vInt8()}}}
	var data interface{} = in
	switch vChoose(3) {
	case 1:
		data = map[string]eC17{"a": in[0], "b": in[1]}
	case 2:
		data = [3]eC17{in[0], in[1], in[2]}
	}
	vMonitorStart(f, data)
	f.Execute(data)
	w1 := vMonitorStop()
	vAssert(len(w1) == 0, "monitor: first Execute writes to memory that existed before the call: "+expr)
	vMonitorStart(f, data)
	f.Execute(data)
	w2 := vMonitorStop()
	vAssert(len(w2) == 0, "monitor: second Execute writes to memory that existed before the call: "+expr)
	vConcurrent(func() { f.Execute(data) }, 4)
	vCover("reached")
}

// H_C12_create: creating evaluators writes no package-level state (so
// concurrent creation is race-free) and needs no synchronisation.
func H_C12_create() {
	expr := exprsC12[vChoose(len(exprsC12))]
	var opts []Option
	switch vChoose(3) {
	case 1: // a budget that suffices, and one that does not: the counter is per parse
		opts = []Option{WithMaxExpressions(1 << 30)}
	case 2:
		opts = []Option{WithMaxExpressions(40), WithTagName("alt")}
	}
	vMonitorStart()
	ev1, e1 := CreateEvaluator(expr, opts...)
	w := vMonitorStop()
	vAssert(len(w) == 0, "monitor: CreateEvaluator writes to package-level state: "+expr)
	ev2, e2 := CreateEvaluator(expr, opts...)
	vAssert((e1 == nil) == (e2 == nil) && (ev1 == nil) == (ev2 == nil), "creating twice gives the same result")
	vConcurrent(func() { CreateEvaluator(expr, opts...) }, 4)
	vCover("reached")
}
