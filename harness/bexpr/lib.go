package bexpr

// Shared harness helpers. Harnesses use the exported API of go-bexpr plus
// vAST (a structure-directed accessor for the parsed tree) only.

import (
	"github.com/hashicorp/go-bexpr/grammar"
)

// Outcome of an evaluation.
const (
	oFalse = 0
	oTrue  = 1
	oError = 2
	oPanic = 3
)

func oName(o int) string { return [...]string{"false", "true", "error", "panic"}[o] }

// mustCreate parses a concrete expression that the harness knows to be valid.
func mustCreate(expr string, opts ...Option) *Evaluator {
	ev, err := CreateEvaluator(expr, opts...)
	if err != nil || ev == nil {
		vFail("harness expression must parse: " + expr)
	}
	return ev
}

// evalO evaluates and classifies; a panic is an outcome of its own.
func evalO(ev *Evaluator, d interface{}) (o int, res bool, err error) {
	defer func() {
		if p := recover(); p != nil {
			o, res, err = oPanic, false, nil
		}
	}()
	res, err = ev.Evaluate(d)
	switch {
	case err != nil:
		o = oError
	case res:
		o = oTrue
	default:
		o = oFalse
	}
	return
}

// theMatch returns the single match expression of an evaluator whose tree is one match.
func theMatch(ev *Evaluator) *grammar.MatchExpression {
	m, ok := vAST(ev).(*grammar.MatchExpression)
	if !ok {
		vFail("expected a single match expression")
	}
	return m
}

// setLit replaces the literal of a single-match evaluator (the parser would
// have produced the same tree for a quoted spelling of lit).
func setLit(ev *Evaluator, lit string) {
	m := theMatch(ev)
	if m.Value == nil {
		vFail("match without value")
	}
	m.Value.Raw = lit
}

// createWithLit: a concrete literal goes through the real parser and
// CreateEvaluator (so creation-time processing sees it); a symbolic one is
// patched into the tree of a placeholder expression.
func createWithLit(op int, sel, lit string, concrete bool) *Evaluator {
	if concrete {
		return mustCreate(exprFor(op, sel, `"`+lit+`"`))
	}
	ev := mustCreate(exprFor(op, sel, "x"))
	setLit(ev, lit)
	return ev
}

var opText = [8]string{"==", "!=", "in", "not in", "is empty", "is not empty", "matches", "not matches"}

// exprFor renders `sel <op> lit` in the operator's own syntax.
func exprFor(op int, sel, lit string) string {
	switch op {
	case 0:
		return sel + " == " + lit
	case 1:
		return sel + " != " + lit
	case 2:
		return lit + " in " + sel
	case 3:
		return lit + " not in " + sel
	case 4:
		return sel + " is empty"
	case 5:
		return sel + " is not empty"
	case 6:
		return sel + " matches " + lit
	default:
		return sel + " not matches " + lit
	}
}

func hasValue(op int) bool { return op != 4 && op != 5 }

type nInt int64
type nUint8 uint8
type nStr string
type nBool bool
type nF64 float64
