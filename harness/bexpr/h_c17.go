package bexpr

// C17 — Filter.Execute returns exactly the elements for which Evaluate is true.

type eC17 struct {
	ID int
	X  interface{}
}

type eC17s []eC17

func nC17() int {
	if vTier() > 0 {
		return 3
	}
	return 2
}

func elemsC17(n int) []eC17 {
	es := make([]eC17, n)
	for i := range es {
		es[i] = eC17{ID: i + 1, X: elemC06()}
	}
	return es
}

// perElement: outcome of the expression on each element on its own.
func perElement(expr string, es []eC17, ptr bool) (outs []int, firstErr int) {
	firstErr = -1
	ev := mustCreate(expr)
	for i := range es {
		var o int
		if ptr {
			o, _, _ = evalO(ev, &es[i])
		} else {
			o, _, _ = evalO(ev, es[i])
		}
		outs = append(outs, o)
		if o == oError && firstErr < 0 {
			firstErr = i
		}
	}
	return
}

func H_C17_slices() {
	n := vChoose(nC17() + 1)
	es := elemsC17(n)
	expr := "X == 1"
	if vBool() {
		expr = "not (X == 1)"
	}
	f, err := CreateFilter(expr)
	vAssume(err == nil && f != nil)
	outs, firstErr := perElement(expr, es, false)
	for _, o := range outs {
		vAssume(o != oPanic)
	}
	var want []int
	for i, o := range outs {
		if o == oTrue {
			want = append(want, es[i].ID)
		}
	}
	kind := vChoose(5)
	var res interface{}
	var rerr error
	var got []int
	typeOK := true
	what := ""
	switch kind {
	case 4:
		what = "[]interface{}"
		is := make([]interface{}, n)
		for i := range es {
			is[i] = es[i]
		}
		res, rerr = f.Execute(is)
		if rerr == nil {
			r, ok := res.([]interface{})
			typeOK = ok
			for _, e := range r {
				got = append(got, e.(eC17).ID)
			}
		}
	case 0:
		what = "[]T"
		res, rerr = f.Execute(es)
		if rerr == nil {
			r, ok := res.([]eC17)
			typeOK = ok
			for _, e := range r {
				got = append(got, e.ID)
			}
		}
	case 1:
		what = "named slice"
		res, rerr = f.Execute(eC17s(es))
		if rerr == nil {
			r, ok := res.(eC17s)
			typeOK = ok
			for _, e := range r {
				got = append(got, e.ID)
			}
		}
	case 2:
		what = "array"
		var a [2]eC17
		vAssume(n == 2)
		copy(a[:], es)
		res, rerr = f.Execute(a)
		if rerr == nil {
			r, ok := res.([]eC17)
			typeOK = ok
			for _, e := range r {
				got = append(got, e.ID)
			}
		}
	default:
		what = "[]*T"
		ps := make([]*eC17, n)
		for i := range es {
			ps[i] = &es[i]
		}
		res, rerr = f.Execute(ps)
		if rerr == nil {
			r, ok := res.([]*eC17)
			typeOK = ok
			for _, e := range r {
				got = append(got, e.ID)
			}
		}
	}
	if firstErr >= 0 {
		vAssert(rerr != nil && res == nil, what+": an evaluation error is returned with a nil result")
		vCover("error")
		return
	}
	vAssert(rerr == nil, what+": no error when no element errors")
	vAssert(typeOK, what+": result has the input's slice type (array => slice of the element type)")
	same := len(got) == len(want)
	for i := 0; same && i < len(got); i++ {
		same = got[i] == want[i]
	}
	vAssert(same, what+": exactly the true elements, in their original order")
	// the input is not modified
	for i := range es {
		vAssert(es[i].ID == i+1, what+": input left untouched")
	}
	// idempotence
	res2, rerr2 := f.Execute(res)
	vAssert(rerr2 == nil, what+": filtering the result again succeeds")
	n2 := 0
	switch r := res2.(type) {
	case []eC17:
		n2 = len(r)
	case eC17s:
		n2 = len(r)
	case []*eC17:
		n2 = len(r)
	case []interface{}:
		n2 = len(r)
	}
	vAssert(n2 == len(want), what+": idempotent")
	vCover("reached")
}

func H_C17_maps() {
	n := vChoose(nC17() + 1)
	es := elemsC17(n)
	expr := "X == 1"
	f, err := CreateFilter(expr)
	vAssume(err == nil)
	outs, firstErr := perElement(expr, es, false)
	for _, o := range outs {
		vAssume(o != oPanic)
	}
	keys := []string{"a", "b", "c"}
	kind := vChoose(4)
	var res interface{}
	var rerr error
	kept := map[int]bool{}
	typeOK := true
	what := ""
	switch kind {
	case 0:
		what = "map[string]T"
		in := map[string]eC17{}
		for i := range es {
			in[keys[i]] = es[i]
		}
		res, rerr = f.Execute(in)
		if rerr == nil {
			r, ok := res.(map[string]eC17)
			typeOK = ok
			for i := range es {
				if e, ok := r[keys[i]]; ok {
					vAssert(e.ID == es[i].ID, what+": key keeps its own element")
					kept[i] = true
				}
			}
			vAssert(len(r) == len(kept), what+": no foreign keys")
			vAssert(len(in) == n, what+": input left untouched")
		}
	case 1:
		what = "map[int]T"
		in := map[int]eC17{}
		for i := range es {
			in[10+i] = es[i]
		}
		res, rerr = f.Execute(in)
		if rerr == nil {
			r, ok := res.(map[int]eC17)
			typeOK = ok
			for i := range es {
				if e, ok := r[10+i]; ok {
					vAssert(e.ID == es[i].ID, what+": key keeps its own element")
					kept[i] = true
				}
			}
			vAssert(len(r) == len(kept), what+": no foreign keys")
		}
	case 3:
		what = "map[interface{}]T with keys that print alike"
		ikeys := []interface{}{1, "1", int8(1)}
		in := map[interface{}]eC17{}
		for i := range es {
			in[ikeys[i]] = es[i]
		}
		res, rerr = f.Execute(in)
		if rerr == nil {
			r, ok := res.(map[interface{}]eC17)
			typeOK = ok
			for i := range es {
				if e, ok := r[ikeys[i]]; ok {
					vAssert(e.ID == es[i].ID, what+": key keeps its own element")
					kept[i] = true
				}
			}
			vAssert(len(r) == len(kept), what+": no foreign keys")
		}
	default:
		what = "map[namedString]*T"
		in := map[nKeyStr]*eC17{}
		for i := range es {
			in[nKeyStr(keys[i])] = &es[i]
		}
		res, rerr = f.Execute(in)
		if rerr == nil {
			r, ok := res.(map[nKeyStr]*eC17)
			typeOK = ok
			for i := range es {
				if e, ok := r[nKeyStr(keys[i])]; ok {
					vAssert(e == &es[i], what+": key keeps its own element")
					kept[i] = true
				}
			}
			vAssert(len(r) == len(kept), what+": no foreign keys")
		}
	}
	if firstErr >= 0 {
		vAssert(rerr != nil && res == nil, what+": an evaluation error is returned with a nil result")
		vCover("error")
		return
	}
	vAssert(rerr == nil, what+": no error when no element errors")
	vAssert(typeOK, what+": result has the input's map type")
	for i, o := range outs {
		vAssert(kept[i] == (o == oTrue), what+": exactly the true entries are kept")
	}
	vCover("reached")
}

// H_C17_other: nil filter, non-container inputs, nil.
func H_C17_other() {
	var nf *Filter
	x := vInt8()
	r, e := nf.Execute(x)
	vAssert(e == nil && r.(int8) == x, "nil filter returns its input unchanged")
	f0, e0 := CreateFilter("")
	vAssert(f0 == nil && e0 == nil, "empty expression gives the nil filter")
	f, err := CreateFilter("X == 1")
	vAssume(err == nil)
	var in interface{}
	what := ""
	switch vChoose(7) {
	case 0:
		in, what = nil, "nil"
	case 1:
		in, what = x, "int8"
	case 2:
		in, what = vString(1), "string"
	case 3:
		in, what = eC17{ID: 1}, "struct"
	case 4:
		in, what = &[]eC17{}, "pointer to slice"
	case 5:
		in, what = (*eC17)(nil), "nil pointer"
	default:
		in, what = func() {}, "func"
	}
	var res interface{}
	var rerr error
	panicked := false
	func() {
		defer func() {
			if recover() != nil {
				panicked = true
			}
		}()
		res, rerr = f.Execute(in)
	}()
	vAssert(!panicked, what+": Execute on a non-container does not panic")
	vAssert(rerr != nil && res == nil, what+": Execute on a non-container is an error")
	// empty and nil containers
	r1, e1 := f.Execute([]eC17(nil))
	vAssert(e1 == nil && len(r1.([]eC17)) == 0, "nil slice filters to an empty slice")
	r2, e2 := f.Execute(map[string]eC17(nil))
	vAssert(e2 == nil && len(r2.(map[string]eC17)) == 0, "nil map filters to an empty map")
	vCover("reached")
}

// H_C17_partition: E and not (E) partition the elements that do not error.
func H_C17_partition() {
	n := nC17()
	es := elemsC17(n)
	f1, _ := CreateFilter("X == 1")
	f2, _ := CreateFilter("not (X == 1)")
	r1, e1 := f1.Execute(es)
	r2, e2 := f2.Execute(es)
	vAssert((e1 == nil) == (e2 == nil), "E and not(E) error together")
	if e1 == nil && e2 == nil {
		vAssert(len(r1.([]eC17))+len(r2.([]eC17)) == n, "E and not(E) partition the input")
	}
	vCover("reached")
}

// H_C17_history: a Filter carries no state between Execute calls — elements
// changed between two calls are judged by their current content.
func H_C17_history() {
	a, b := &eC17{ID: 1, X: elemC06()}, &eC17{ID: 2, X: elemC06()}
	in := []*eC17{a, b}
	f, err := CreateFilter("X == 1")
	vAssume(err == nil)
	_, e1 := f.Execute(in)
	// mutate the pointed-to elements, then filter again with the same Filter
	a.X, b.X = elemC06(), elemC06()
	r2, e2 := f.Execute(in)
	fresh, _ := CreateFilter("X == 1")
	r3, e3 := fresh.Execute(in)
	_ = e1
	vAssert((e2 == nil) == (e3 == nil), "second Execute errors exactly when a fresh filter does")
	if e2 == nil && e3 == nil {
		x, y := r2.([]*eC17), r3.([]*eC17)
		same := len(x) == len(y)
		for i := 0; same && i < len(x); i++ {
			same = x[i] == y[i]
		}
		vAssert(same, "second Execute returns what a fresh filter returns")
	}
	vCover("reached")
}

// H_C17_container_sequence: one Filter used on containers of different types
// that share an element type — the result type follows each input, not an
// earlier one.
func H_C17_container_sequence() {
	f, err := CreateFilter("X == 1")
	vAssume(err == nil)
	mk := func() []eC17 { return []eC17{{ID: 1, X: vInt8()}, {ID: 2, X: vInt8()}} }
	typeOf := func(kind int, r interface{}) bool {
		switch kind {
		case 0, 2:
			_, ok := r.([]eC17)
			return ok
		default:
			_, ok := r.(eC17s)
			return ok
		}
	}
	run := func(kind int) (interface{}, error) {
		es := mk()
		switch kind {
		case 0:
			return f.Execute(es)
		case 1:
			return f.Execute(eC17s(es))
		default:
			return f.Execute([2]eC17{es[0], es[1]})
		}
	}
	k1, k2 := vChoose(3), vChoose(3)
	vAssume(k1 != k2)
	r1, e1 := run(k1)
	r2, e2 := run(k2)
	vAssert(e1 == nil && e2 == nil, "no error on comparable elements")
	if e1 == nil && e2 == nil {
		vAssert(typeOf(k1, r1), "first call: result type follows the input type")
		vAssert(typeOf(k2, r2), "second call on another container type with the same element type: result type follows that input")
	}
	vCover("reached")
}

// H_C17_aliased_elements: distinct elements that share storage (sub-slices
// of one backing array, the same pointer twice, a map stored twice) are
// judged one by one.
func H_C17_aliased_elements() {
	rows := []eC17{{ID: 1, X: vInt8()}, {ID: 2, X: vInt8()}}
	expr := []string{`"/1/X" == 1`, `"/0/X" == 1`}[vChoose(2)]
	f, err := CreateFilter(expr)
	vAssume(err == nil)
	var in [][]eC17
	if vBool() {
		in = [][]eC17{rows[:2], rows[:1]}
	} else {
		in = [][]eC17{rows[:1], rows[:2]}
	}
	ev := mustCreate(expr)
	var want [][]eC17
	wantErr := false
	for _, e := range in {
		ok, eerr := ev.Evaluate(e)
		if eerr != nil {
			wantErr = true
			break
		}
		if ok {
			want = append(want, e)
		}
	}
	res, rerr := f.Execute(in)
	vAssert((rerr != nil) == wantErr, "elements sharing a backing array: error exactly when some element's Evaluate errors")
	if rerr == nil && !wantErr {
		got, ok := res.([][]eC17)
		vAssert(ok && len(got) == len(want), "elements sharing a backing array: kept exactly where Evaluate is true")
		if ok && len(got) == len(want) {
			for i := range got {
				vAssert(len(got[i]) == len(want[i]), "the kept elements are the matching ones, in order")
			}
		}
	} else {
		vAssert(rerr == nil || res == nil, "nil result with an error")
	}
	// the same pointer twice, and two pointers to equal content
	p := &eC17{ID: 1, X: vInt8()}
	q := &eC17{ID: 1, X: p.X}
	f2, _ := CreateFilter("X == 1")
	r2, e2 := f2.Execute([]*eC17{p, p, q})
	vAssert(e2 == nil, "pointer elements: no error")
	if e2 == nil {
		ok1, _ := mustCreate("X == 1").Evaluate(p)
		n := len(r2.([]*eC17))
		vAssert(ok1 && n == 3 || !ok1 && n == 0, "repeated and equal pointers are all judged alike")
	}
	vCover("reached")
}
