package bexpr

// C08 — hidden and unexported struct fields never influence any result.
// Self-composition: two data equal on visible fields, independent on hidden ones.

type hC08 struct {
	A  int8   `bexpr:"a" alt:"A2"`
	H  string `bexpr:"-" alt:"-"`
	u  int8
	R  string `bexpr:"H" alt:"H"` // renamed to the hidden field's Go name
	T  string `bexpr:"t" alt:"-"` // visible under bexpr, hidden under alt
	In *hC08  `bexpr:"in" alt:"in"`
	L  []hC08el
	M  map[string]hC08el
	E  hC08el
}

type hC08el struct {
	V int8
	S string `bexpr:"-" alt:"-"`
	p int8
	Q string `alt:"-"` // visible under bexpr (as Q), hidden under alt
}

func mkC08(a int8, r string, v1, v2 int8, depth int) hC08 {
	return mkC08t(a, r, v1, v2, depth, false)
}

// mkC08t: with altTag the field T is hidden, so its content is independent too.
func mkC08t(a int8, r string, v1, v2 int8, depth int, altTag bool) hC08 {
	d := hC08{A: a, H: vStringN(1), u: vInt8(), R: r, T: r}
	if altTag {
		d.T = vStringN(1)
	}
	q := func() string {
		if altTag {
			return vStringN(1)
		}
		return r
	}
	d.L = []hC08el{{V: v1, S: vStringN(1), p: vInt8(), Q: q()}}
	d.M = map[string]hC08el{"k": {V: v2, S: vStringN(1), p: vInt8(), Q: q()}}
	d.E = hC08el{V: v1, S: vString(1), p: vInt8(), Q: r}
	if depth > 0 {
		in := mkC08t(a, r, v1, v2, depth-1, altTag)
		d.In = &in
	}
	return d
}

var exprsC08 = []string{
	`H == "x"`, `h == "x"`, `u == 1`, `R == "x"`, `a == 1`, `A == 1`, `in.H == "x"`, `in.u == 1`, `L.0.S == "x"`, `L.0.p == 1`, `M.k.S == "x"`,
	`any L as e { e.S == "x" }`, `any L as e { e.V == 1 }`, `all M as k, v { v.p != 1 }`, `L is empty`, `in is empty`, `M.k is not empty`,
	`"x" in L`, `L.0 == 1`, `M.k matches "x"`, `in matches "x"`, `"x" in in`, `in == "x"`, `any M as k, v { v.S matches "^x" }`, `H matches "x" or a == 1`,
	`"/in/H" == "x"`, `"/L/0/S" != "x"`, `S == "x"`, `t == "x"`, `T == "x"`, `in.t matches "x"`,
	`any L as e { e.Q == "x" }`, `L.0.Q == "x"`, `all M as k, v { v.Q != "x" }`, `E is empty`, `E is not empty`, `L.0 is empty`, `in.E is empty`, `E == "x"`, `"x" in E`,
}

func H_C08_templates() {
	a, v1, v2 := vInt8(), vInt8(), vInt8()
	r := vString(1)
	expr := exprsC08[vChoose(len(exprsC08))]
	var opts []Option
	tag := "bexpr"
	switch vChoose(3) {
	case 1:
		opts, tag = []Option{WithTagName("alt")}, "alt"
	case 2:
		opts, tag = []Option{WithUnknownValue("x")}, "bexpr+unknown"
	}
	d1 := mkC08t(a, r, v1, v2, 1, tag == "alt")
	d2 := mkC08t(a, r, v1, v2, 1, tag == "alt")
	ev, err := CreateEvaluator(expr, opts...)
	vAssume(err == nil)
	o1, _, _ := evalO(ev, d1)
	o2, _, _ := evalO(ev, &d2)
	vAssume(o1 != oPanic && o2 != oPanic)
	vAssert(o1 == o2, "two data differing only in hidden/unexported fields give one outcome: "+expr+" ["+tag+"]")
	vCover("reached")
}

// H_C08_symname: the solver looks for ANY selector name / operator / literal
// under which the two runs differ.
func H_C08_symname() {
	a, v1, v2 := vInt8(), vInt8(), vInt8()
	r := vString(1)
	op := vChoose(8)
	alt := vBool()
	d1 := mkC08t(a, r, v1, v2, 0, alt)
	d2 := mkC08t(a, r, v1, v2, 0, alt)
	ev := mustCreate(exprFor(op, "X", "y"))
	if alt {
		ev = mustCreate(exprFor(op, "X", "y"), WithTagName("alt"))
	}
	m := theMatch(ev)
	switch vChoose(3) {
	case 0:
		m.Selector.Path = []string{vString(2)}
	case 1:
		m.Selector.Path = []string{"L", "0", vString(1)}
	default:
		m.Selector.Path = []string{"M", "k", vString(1)}
	}
	if hasValue(op) {
		if op >= 6 {
			m.Value.Raw = []string{"x", "^", "("}[vChoose(3)]
		} else {
			m.Value.Raw = vString(1)
		}
	}
	o1, _, _ := evalO(ev, d1)
	o2, _, _ := evalO(ev, d2)
	vAssume(o1 != oPanic && o2 != oPanic)
	vAssert(o1 == o2, opText[op]+": some selector name distinguishes two data that differ only in hidden fields")
	vCover("reached")
}

// H_C08_reach: a hidden field is never resolved to its content; a renamed
// field is reachable only under its tag name.
func H_C08_reach() {
	d := mkC08(vInt8(), vString(1), vInt8(), vInt8(), 0)
	d.H = "secret"
	d.L[0].S = "secret"
	for _, e := range []string{`H == "secret"`, `L.0.S == "secret"`, `u == 0 or u != 0`, `any L as e { e.S == "secret" }`} {
		o, _, _ := evalO(mustCreate(e), d)
		if e == `H == "secret"` {
			// H resolves to the field renamed to "H" (R), never to the hidden field's content
			o2, _, _ := evalO(mustCreate(`H == "secret"`), hC08{R: "other", H: "secret"})
			vAssert(o2 != oTrue, "a selector naming a hidden field does not see its content")
			continue
		}
		vAssert(o == oError, "a selector naming a hidden or unexported field is an error: "+e)
	}
	// renamed field: Go name does not resolve, tag name does
	o3, _, _ := evalO(mustCreate(`R == "v"`), hC08{R: "v"})
	vAssert(o3 == oError, "a renamed field is not reachable under its Go name")
	o4, _, _ := evalO(mustCreate(`H == "v"`), hC08{R: "v"})
	vAssert(o4 == oTrue, "a renamed field is reachable under its tag name")
	// with an unknown value configured, the hidden name yields the unknown value, not the content
	o5, _, _ := evalO(mustCreate(`L.0.S == "secret"`, WithUnknownValue("u")), d)
	vAssert(o5 != oTrue, "unknown value, not the hidden content")
	vCover("reached")
}

// H_C08_filter: Filter keeps the same positions/keys for both data.
func H_C08_filter() {
	v1, v2 := vInt8(), vInt8()
	l1 := []hC08el{{V: v1, S: vStringN(1), p: vInt8()}, {V: v2, S: vStringN(1), p: vInt8()}}
	l2 := []hC08el{{V: v1, S: vStringN(1), p: vInt8()}, {V: v2, S: vStringN(1), p: vInt8()}}
	expr := []string{`V == 1`, `S == "x"`, `p == 1`, `V != 1 or S == "x"`}[vChoose(4)]
	f, err := CreateFilter(expr)
	vAssume(err == nil)
	r1, e1 := f.Execute(l1)
	r2, e2 := f.Execute(l2)
	vAssert((e1 == nil) == (e2 == nil), "filter: same error-or-not: "+expr)
	if e1 == nil && e2 == nil {
		a, b := r1.([]hC08el), r2.([]hC08el)
		same := len(a) == len(b)
		for i := 0; same && i < len(a); i++ {
			same = a[i].V == b[i].V
		}
		vAssert(same, "filter: same positions kept: "+expr)
	}
	vCover("reached")
}

// Two distinct struct types that print alike (function-local types): a cache
// keyed by the printed type name would mix up their field tables.
func mkLocalT1(name, token string) interface{} {
	type T struct {
		Name  string
		Token string `bexpr:"-"`
	}
	return T{Name: name, Token: token}
}

func mkLocalT2(name, token string) interface{} {
	type T struct {
		Token string `bexpr:"-"`
		Name  string
	}
	return T{Token: token, Name: name}
}

// H_C08_same_named_types: evaluating against one type must not change what a
// later evaluation against a same-named type sees of its hidden fields.
func H_C08_same_named_types() {
	name := vStringN(1)
	ev := mustCreate(`Name == "x"`)
	first := vBool()
	if first {
		evalO(ev, mkLocalT1(name, vStringN(1)))
	} else {
		evalO(ev, mkLocalT2(name, vStringN(1)))
	}
	a, b := mkLocalT2(name, vStringN(1)), mkLocalT2(name, vStringN(1))
	if !first {
		a, b = mkLocalT1(name, vStringN(1)), mkLocalT1(name, vStringN(1))
	}
	o1, _, _ := evalO(ev, a)
	o2, _, _ := evalO(ev, b)
	vAssert(o1 == o2, "after a call on a same-named type, hidden fields still do not matter")
	f, _ := CreateFilter(`Name == "x"`)
	r1, e1 := f.Execute([]interface{}{a})
	r2, e2 := f.Execute([]interface{}{b})
	vAssert((e1 == nil) == (e2 == nil) && (e1 != nil || len(r1.([]interface{})) == len(r2.([]interface{}))), "filter: same selection")
	vCover("reached")
}

// Embedded structs: an embedded field is a field like any other — hidden when
// tagged "-" or when its type name is unexported — and promotion through it
// must not make its content observable.
type EmbVisC08 struct {
	Token string
	N     int8
}
type EmbHidC08 struct {
	Secret string
	K      int8
}
type embUnexpC08 struct{ Z string }
type EmbPtrC08 struct{ P string }

type hC08e struct {
	EmbVisC08
	EmbHidC08   `bexpr:"-" alt:"-"`
	embUnexpC08
	*EmbPtrC08 `bexpr:"-" alt:"-"`
	A          int8
}

var exprsC08e = []string{
	`Token == "x"`, `Secret == "x"`, `K == 1`, `Z == "x"`, `P == "x"`, `N == 1`, `A == 1`,
	`EmbVisC08.Token == "x"`, `EmbHidC08.Secret == "x"`, `EmbHidC08.K == 1`, `embUnexpC08.Z == "x"`, `EmbPtrC08.P == "x"`,
	`"/Secret" == "x"`, `"/EmbHidC08/Secret" != "x"`, `EmbHidC08 is empty`, `EmbHidC08 is not empty`, `EmbPtrC08 is empty`, `Secret matches "x"`, `"x" in Secret`,
	`any L as e { e.Secret == "x" }`, `all L as e { e.K != 1 }`, `any L as e { e.Token == "x" }`, `L.0.Secret == "x"`, `L.0.EmbHidC08.Secret == "x"`, `M.k.Secret == "x"`, `all M as _, v { v.P != "x" }`,
}

func mkC08e(tok string, n, a int8) hC08e {
	return hC08e{EmbVisC08: EmbVisC08{Token: tok, N: n}, EmbHidC08: EmbHidC08{Secret: vStringN(1), K: vInt8()}, embUnexpC08: embUnexpC08{Z: vStringN(1)}, EmbPtrC08: &EmbPtrC08{P: vStringN(1)}, A: a}
}

func H_C08_embedded() {
	tok, n, a := vString(1), vInt8(), vInt8()
	expr := exprsC08e[vChoose(len(exprsC08e))]
	var opts []Option
	tag := "bexpr"
	switch vChoose(3) {
	case 1:
		opts, tag = []Option{WithTagName("alt")}, "alt"
	case 2:
		opts, tag = []Option{WithUnknownValue("x")}, "bexpr+unknown"
	}
	type outer struct {
		hC08e
		L []hC08e
		M map[string]*hC08e
	}
	m1, m2 := mkC08e(tok, n, a), mkC08e(tok, n, a)
	d1 := outer{hC08e: mkC08e(tok, n, a), L: []hC08e{mkC08e(tok, n, a)}, M: map[string]*hC08e{"k": &m1}}
	d2 := outer{hC08e: mkC08e(tok, n, a), L: []hC08e{mkC08e(tok, n, a)}, M: map[string]*hC08e{"k": &m2}}
	ev, err := CreateEvaluator(expr, opts...)
	vAssume(err == nil)
	var o1, o2 int
	if vBool() {
		o1, _, _ = evalO(ev, d1.hC08e)
		o2, _, _ = evalO(ev, &d2.hC08e)
	} else {
		o1, _, _ = evalO(ev, d1)
		o2, _, _ = evalO(ev, d2)
	}
	vAssume(o1 != oPanic && o2 != oPanic)
	vAssert(o1 == o2, "content of hidden / unexported embedded structs is unobservable, also through promotion: "+expr+" ["+tag+"]")
	vCover("reached")
}

// hC08i: hidden fields of interface type may hold anything — scalars, slices,
// maps, funcs — without Execute or Evaluate noticing.
type hC08i struct {
	V int8
	H interface{} `bexpr:"-" alt:"-"`
	u interface{}
	M interface{} `bexpr:"-" alt:"-"` // the struct stays comparable: only the content of the hidden fields is not
}

func hiddenContentC08(c int) interface{} {
	switch c {
	case 0:
		return vInt8()
	case 1:
		return []int{1, 2}
	case 2:
		return map[string]int{"a": 1}
	case 3:
		return func() {}
	default:
		return nil
	}
}

func H_C08_filter_hidden_kinds() {
	v1, v2 := vInt8(), vInt8()
	mk := func() []hC08i {
		c := vChoose(5) // one kind of hidden content per datum
		return []hC08i{{V: v1, H: hiddenContentC08(c), u: hiddenContentC08(c)}, {V: v2, H: hiddenContentC08(c), M: map[string]interface{}{"k": hiddenContentC08(c)}}, {V: v1, H: hiddenContentC08(c)}}
	}
	l1, l2 := mk(), mk()
	expr := []string{`V == 1`, `V != 1`, `H == 1`, `M.k == 1`}[vChoose(4)]
	f, err := CreateFilter(expr)
	vAssume(err == nil)
	sel := func(l []hC08i, asMap bool) (n int, isErr bool, panicked bool) {
		defer func() {
			if recover() != nil {
				panicked = true
			}
		}()
		var r interface{}
		var e error
		if asMap {
			r, e = f.Execute(map[string]hC08i{"a": l[0], "b": l[1]})
		} else {
			r, e = f.Execute(l)
		}
		if e != nil {
			return 0, true, false
		}
		if asMap {
			return len(r.(map[string]hC08i)), false, false
		}
		return len(r.([]hC08i)), false, false
	}
	asMap := vBool()
	n1, e1, p1 := sel(l1, asMap)
	n2, e2, p2 := sel(l2, asMap)
	vAssert(!p1 && !p2, "Execute does not panic, whatever hidden fields hold: "+expr)
	vAssert(e1 == e2 && n1 == n2, "the selection does not depend on what hidden fields hold: "+expr)
	ev := mustCreate(expr)
	o1, _, _ := evalO(ev, l1[0])
	o2, _, _ := evalO(ev, &l2[0])
	vAssert(o1 == o2 && o1 != oPanic, "nor does Evaluate: "+expr)
	vCover("reached")
}
