package bexpr

// C06 — any/all fold the body over elements with correct binding, order and scoping.
// Oracle: the unrolled expression, parsed and evaluated by the same real code,
// whose connective semantics is C03's table.

import (
	"reflect"
	"strconv"
)

func nMaxC06() int {
	if vTier() > 0 {
		return 3
	}
	return 2
}

// elemC06: an element whose body outcome is free (int, string, or an erroring slice).
func elemC06() interface{} {
	switch vChoose(3) {
	case 0:
		return vInt8()
	case 1:
		return "s"
	default:
		return []int{1}
	}
}

func joinOp(parts []string, op string, empty string) string {
	if len(parts) == 0 {
		return empty
	}
	s := ""
	for i, p := range parts {
		if i > 0 {
			s += " " + op + " "
		}
		s += "(" + p + ")"
	}
	return s
}

// outcomeOfUnrolled evaluates the unrolled form; for an empty collection the
// documented constants apply.
func outcomeOfUnrolled(parts []string, any bool, d interface{}) int {
	if len(parts) == 0 {
		if any {
			return oFalse
		}
		return oTrue
	}
	op := "and"
	if any {
		op = "or"
	}
	o, _, _ := evalO(mustCreate(joinOp(parts, op, "")), d)
	return o
}

// H_C06_list: every binding mode over a list of symbolic elements.
func H_C06_list() {
	n := vChoose(nMaxC06() + 1)
	l := make([]interface{}, n)
	idx := make([]int, n)
	for i := 0; i < n; i++ {
		l[i] = elemC06()
		idx[i] = i
	}
	d := map[string]interface{}{"l": l, "idx": idx, "y": vInt8()}
	any := vBool()
	q := "all"
	if any {
		q = "any"
	}
	var expr string
	parts := make([]string, n)
	mode := vChoose(7)
	for i := 0; i < n; i++ {
		is := strconv.Itoa(i)
		switch mode {
		case 5:
			parts[i] = "y == 2"
		case 6:
			parts[i] = "(any idx as q { q == 0 }) or y == 2"
		case 0:
			parts[i] = "l." + is + " == 1"
		case 1:
			parts[i] = "idx." + is + " != 1 and l." + is + " != 1"
		case 2:
			parts[i] = "idx." + is + " == 0"
		case 3:
			parts[i] = `"/l/` + is + `" == 1`
		default:
			parts[i] = "1 in l." + is + " or l." + is + " == 1"
		}
	}
	switch mode {
	case 5: // the body ignores the binding
		expr = q + " l as x { y == 2 }"
	case 6:
		expr = q + " l as x { (any idx as q { q == 0 }) or y == 2 }"
	case 0:
		expr = q + " l as x { x == 1 }"
	case 1:
		expr = q + " l as i, x { i != 1 and x != 1 }"
	case 2:
		expr = q + " l as i, _ { i == 0 }"
	case 3:
		expr = q + ` "/l" as _, x { "/x" == 1 }`
	default:
		expr = q + " l as x { 1 in x or x == 1 }"
	}
	o1, _, _ := evalO(mustCreate(expr), d)
	o2 := outcomeOfUnrolled(parts, any, d)
	vAssume(o1 != oPanic && o2 != oPanic)
	vAssert(o1 == o2, expr+": equals its unrolling over "+strconv.Itoa(n)+" elements")
	vCover("reached")
}

// H_C06_nested: element fields, nested quantifiers, shadowing, same-named top-level field.
func H_C06_nested() {
	n := vChoose(nMaxC06() + 1)
	l := make([]interface{}, n)
	for i := 0; i < n; i++ {
		g := []interface{}{vInt8()}
		if vBool() {
			g = append(g, vInt8())
		}
		l[i] = map[string]interface{}{"f": vInt8(), "g": g}
	}
	d := map[string]interface{}{"l": l, "x": vInt8(), "y": vInt8()}
	any := vBool()
	q, iq := "all", "any"
	if any {
		q, iq = "any", "all"
	}
	tmpl := vChoose(6)
	parts := make([]string, n)
	var expr string
	for i := 0; i < n; i++ {
		is := strconv.Itoa(i)
		gl := len(l[i].(map[string]interface{})["g"].([]interface{}))
		inner := make([]string, gl)
		for j := 0; j < gl; j++ {
			inner[j] = "l." + is + ".g." + strconv.Itoa(j) + " == 1"
		}
		iop := "and"
		if iq == "any" {
			iop = "or"
		}
		switch tmpl {
		case 0:
			parts[i] = "l." + is + ".f == 1"
		case 1:
			parts[i] = `"/l/` + is + `/f" != 1`
		case 2, 3:
			parts[i] = joinOp(inner, iop, "")
		case 4:
			parts[i] = "l." + is + ".f == 1 or y == 2"
		default:
			parts[i] = "l." + is + `["f"] == 1`
		}
	}
	pre, post := "", ""
	switch tmpl {
	case 0:
		expr = q + " l as x { x.f == 1 }"
	case 1:
		expr = q + ` l as x { "/x/f" != 1 }`
	case 2:
		expr = q + " l as x { " + iq + " x.g as y { y == 1 } }"
	case 3: // inner binding shadows the outer one
		expr = q + " l as x { " + iq + " x.g as x { x == 1 } }"
	case 4: // an unrelated top-level field is visible inside the braces
		expr = q + " l as x { x.f == 1 or y == 2 }"
	default: // binding shadows the same-named top-level field only inside the braces
		expr = "x == 3 and (" + q + ` l as x { x["f"] == 1 }) and x == 3`
		pre, post = "x == 3 and (", ") and x == 3"
	}
	o1, _, _ := evalO(mustCreate(expr), d)
	var o2 int
	if pre == "" {
		o2 = outcomeOfUnrolled(parts, any, d)
	} else {
		mid := "x == x"
		if n > 0 {
			op := "and"
			if any {
				op = "or"
			}
			mid = joinOp(parts, op, "")
			o2, _, _ = evalO(mustCreate(pre+mid+post), d)
		} else {
			ox, _, _ := evalO(mustCreate("x == 3"), d)
			o2 = tblAnd(ox, tblAnd(outcomeOfUnrolled(nil, any, d), ox))
		}
	}
	vAssume(o1 != oPanic && o2 != oPanic)
	vAssert(o1 == o2, expr+": equals its unrolling")
	vCover("reached")
}

// H_C06_map: string-keyed maps; candidate keys concrete, presence and values symbolic.
func H_C06_map() {
	m := map[string]interface{}{}
	keys := []string{"a", "b", "c"}
	np := 0
	anyErr := false
	for _, k := range keys[:nMaxC06()] {
		if vBool() {
			e := elemC06()
			if _, isSlice := e.([]int); isSlice {
				anyErr = true
			}
			m[k] = e
			np++
		}
	}
	d := map[string]interface{}{"m": m, "kk": map[string]string{"a": "a", "b": "b", "c": "c"}}
	any := vBool()
	q := "all"
	if any {
		q = "any"
	}
	mode := vChoose(4)
	var expr string
	var parts []string
	for _, k := range keys[:nMaxC06()] {
		if _, ok := m[k]; !ok {
			continue
		}
		switch mode {
		case 0: // one-name form binds the key
			parts = append(parts, "kk."+k+` == "a"`)
		case 1:
			parts = append(parts, "m."+k+" == 1")
		case 2:
			parts = append(parts, "kk."+k+` != "b" and m.`+k+" != 1")
		default:
			parts = append(parts, "m."+k+" != 1")
		}
	}
	switch mode {
	case 0:
		expr = q + " m as k { k == \"a\" }"
	case 1:
		expr = q + " m as _, v { v == 1 }"
	case 2:
		expr = q + " m as k, v { k != \"b\" and v != 1 }"
	default:
		expr = q + ` "/m" as k, v { v != 1 }`
	}
	o1, _, _ := evalO(mustCreate(expr), d)
	vAssume(o1 != oPanic)
	if mode == 0 {
		// keys only: no element can error
		_, hasA := m["a"]
		want := np == 0 && !any || hasA && any || !any && np == 1 && hasA
		_ = want
		if any {
			vAssert(o1 != oError && (o1 == oTrue) == hasA, "any m as k {k == a}: true iff key a present")
		} else {
			vAssert(o1 != oError && (o1 == oTrue) == (np == 0 || (np == 1 && hasA)), "all m as k {k == a}: true iff every key is a")
		}
	} else {
		bodyErr := false
		for _, p := range parts {
			po, _, _ := evalO(mustCreate(p), d)
			if po == oError {
				bodyErr = true
			}
		}
		if !bodyErr {
			// no element's body errors: order-independent, equals the unrolling
			o2 := outcomeOfUnrolled(parts, any, d)
			vAssert(o1 == o2, expr+": equals its unrolling (no erroring element)")
		} else {
			// some element errors: error, or the decisive value (which one is C14's subject)
			dec := oFalse
			if any {
				dec = oTrue
			}
			vAssert(o1 == oError || o1 == dec, expr+": with an erroring element the outcome is the error or the decisive value")
		}
	}
	_ = anyErr
	vCover("reached")
}

// H_C06_errors: what may not be iterated, and the same-name rule.
func H_C06_errors() {
	var c interface{}
	what := ""
	switch vChoose(6) {
	case 0:
		c, what = vString(2), "string"
	case 1:
		c, what = vInt8(), "int"
	case 2:
		c, what = map[int]string{1: "a"}, "int-keyed map"
	case 3:
		c, what = map[nKeyStr]string{"a": "b"}, "named-string-keyed map"
	case 4:
		c, what = sC05{A: 1}, "struct"
	default:
		c, what = nil, "nil"
	}
	d := map[string]interface{}{"c": c, "l": []int{1, 2}, "e": []int{}}
	o1, _, _ := evalO(mustCreate("any c as x { x == 1 }"), d)
	o2, _, _ := evalO(mustCreate("all c as x { x == 1 }"), d)
	vAssume(o1 != oPanic && o2 != oPanic)
	vAssert(o1 == oError && o2 == oError, "iterating a "+what+" is an error")
	o3, _, _ := evalO(mustCreate("any l as x, x { x == 1 }"), d)
	vAssert(o3 == oError, "index and value bound to one name is an error")
	o4, r4, _ := evalO(mustCreate("all e as x { x == 1 }"), d)
	o5, r5, _ := evalO(mustCreate("any e as x { x == 1 }"), d)
	vAssert(o4 != oError && r4 && o5 != oError && !r5, "empty list: all true, any false")
	// a key/index binding has no fields
	o6, _, _ := evalO(mustCreate("any l as i, _ { i.f == 1 }"), d)
	vAssert(o6 == oError, "selecting inside an index binding is an error")
	vCover("reached")
}

var nastyKeys = []string{"a/b", "~0", "~1x", "a.b", " ", "", "0", "k~", "a~1b", "/", "x/", "app.kubernetes.io/name", "\"", "é"}

// H_C06_map_keys: the value binding must reach the element under its exact
// key, whatever characters the key contains.
func H_C06_map_keys() {
	k := nastyKeys[vChoose(len(nastyKeys))]
	m := map[string]interface{}{k: vInt8()}
	if vBool() {
		m["a"] = vInt8()
	}
	d := map[string]interface{}{"m": m}
	any := vBool()
	q := "all"
	if any {
		q = "any"
	}
	var expr string
	switch vChoose(3) {
	case 0:
		expr = q + " m as _, v { v == 1 }"
	case 1:
		expr = q + " m as k, v { v == 1 }"
	default:
		expr = q + " m as k, v { v == 1 and k != \"zz\" }"
	}
	parts := []string{"m[`" + k + "`] == 1"}
	if _, ok := m["a"]; ok && k != "a" {
		parts = append(parts, "m.a == 1")
	}
	o1, _, _ := evalO(mustCreate(expr), d)
	o2 := outcomeOfUnrolled(parts, any, d)
	vAssume(o1 != oPanic && o2 != oPanic)
	vAssert(o1 == o2, expr+" over key "+strconv.Quote(k)+": equals its unrolling")
	vCover("reached")
}

// wrapC06 is a protobuf-style wrapper; hookUnwrapC18 (one field named V) turns it into what it holds.
type wrapC06 struct{ V interface{} }

// hookUnwrapC06 looks through interfaces and pointers and replaces a
// one-field struct whose field is named V by that field.
func hookUnwrapC06(v reflect.Value) reflect.Value {
	w := v
	for w.IsValid() && (w.Kind() == reflect.Interface || w.Kind() == reflect.Ptr) {
		if w.IsNil() {
			return v
		}
		w = w.Elem()
	}
	if w.IsValid() && w.Kind() == reflect.Struct && w.NumField() == 1 && w.Type().Field(0).Name == "V" {
		return w.Field(0)
	}
	return v
}

// H_C06_hook: the fold law holds under a value-transformation hook too — the
// element a binding stands for is the element the direct selector reaches,
// hook applied, whether the binding is used as the root of a selector, as a
// prefix, or through a JSON Pointer.
func H_C06_hook() {
	n := 1 + vChoose(nMaxC06())
	l := make([]interface{}, n)
	for i := 0; i < n; i++ {
		switch vChoose(3) {
		case 0:
			l[i] = wrapC06{V: vInt8()}
		case 1:
			l[i] = &wrapC06{V: map[string]interface{}{"f": vInt8()}}
		default:
			l[i] = vInt8()
		}
	}
	var d interface{} = map[string]interface{}{"l": l}
	if vBool() {
		d = map[string]interface{}{"l": wrapC06{V: l}} // the collection itself is reached through the hook
	}
	any := vBool()
	q, op := "all", "and"
	if any {
		q, op = "any", "or"
	}
	mode := vChoose(4)
	parts := make([]string, n)
	for i := 0; i < n; i++ {
		is := strconv.Itoa(i)
		switch mode {
		case 0:
			parts[i] = "l." + is + " == 1"
		case 1:
			parts[i] = "l." + is + ".f == 1"
		case 2:
			parts[i] = `"/l/` + is + `" != 1`
		default:
			parts[i] = "l." + is + " is empty"
		}
	}
	expr := q + " l as x { " + []string{"x == 1", "x.f == 1", `"/x" != 1`, "x is empty"}[mode] + " }"
	if vBool() {
		expr = q + " l as _, x { " + []string{"x == 1", "x.f == 1", `"/x" != 1`, "x is empty"}[mode] + " }"
	}
	ev, err := CreateEvaluator(expr, WithHookFn(hookUnwrapC06))
	un, err2 := CreateEvaluator(joinOp(parts, op, ""), WithHookFn(hookUnwrapC06))
	if err != nil || err2 != nil {
		vFail("harness expressions must parse")
	}
	o1, _, _ := evalO(ev, d)
	o2, _, _ := evalO(un, d)
	vAssume(o1 != oPanic && o2 != oPanic)
	vAssert(o1 == o2, expr+": equals its unrolling under an unwrapping hook")
	vCover("reached")
}

// H_C06_mixed_kinds: the one-name form means the value for a list and the key
// for a map each time a collection is folded — also when one quantifier node
// meets a list in one element and a map in the next, in either order, or on
// two successive calls.
func H_C06_mixed_kinds() {
	lv, mv := vInt8(), vInt8()
	asList := map[string]interface{}{"p": []interface{}{lv}}
	asMap := map[string]interface{}{"p": map[string]interface{}{"1": mv}}
	var l []interface{}
	listFirst := vBool()
	if listFirst {
		l = []interface{}{asList, asMap}
	} else {
		l = []interface{}{asMap, asList}
	}
	d := map[string]interface{}{"l": l, "kk": map[string]string{"1": "1"}}
	any := vBool()
	q, op := "all", "and"
	if any {
		q, op = "any", "or"
	}
	// n is the element value of the list (lv) and the key "1" of the map
	li, mi := "0", "1"
	if !listFirst {
		li, mi = "1", "0"
	}
	partList, partMap := "l."+li+".p.0 == 1", "kk.1 == 1"
	_ = mi
	parts := []string{partList, partMap}
	if !listFirst {
		parts = []string{partMap, partList}
	}
	ev := mustCreate(q + " l as s { " + q + " s.p as n { n == 1 } }")
	o1, _, _ := evalO(ev, d)
	o2, _, _ := evalO(mustCreate(joinOp(parts, op, "")), d)
	vAssume(o1 != oPanic && o2 != oPanic)
	vAssert(o1 == o2, "one-name binding over a list element and a map element in one fold")
	// the same node on two successive calls: a list, then a map
	ev2 := mustCreate(q + " p as n { n == 1 }")
	a1, _, _ := evalO(ev2, asList)
	a2, _, _ := evalO(ev2, asMap)
	b2, _, _ := evalO(mustCreate(q+" p as n { n == 1 }"), asMap)
	_ = a1
	vAssert(a2 == b2, "one-name binding means the key of a map also after the node folded a list")
	vCover("reached")
}
