package bexpr

// C01 — Evaluate returns what the expression denotes (reference-semantics agreement).
// The Go datum and its model tree are built from the same symbolic leaves.

import (
	"encoding/json"

	"github.com/hashicorp/go-bexpr/grammar"
)

type sC01 struct {
	A  int8   `bexpr:"a"`
	B  string `bexpr:"-"`
	C  string
	u  int8
	In map[string]interface{} `bexpr:"in"`
	L  []int8
}

type nI8 int8

// scalarC01: a scalar leaf and its model.
func scalarC01(c int) (interface{}, *rv) {
	switch c {
	case 0:
		x := vInt8()
		return x, &rv{kind: rvInt, i: int64(x)}
	case 1:
		x := vUint16()
		return x, &rv{kind: rvUint, u: uint64(x)}
	case 2:
		x := vStringN(1)
		return x, &rv{kind: rvStr, s: x}
	case 3:
		x := vBool()
		return x, &rv{kind: rvBool, b: x}
	case 4:
		return nil, &rv{kind: rvNil}
	case 5:
		x := vInt64()
		return nI8(x), &rv{kind: rvInt, i: int64(int8(x))}
	case 6:
		x := vInt8()
		return &x, &rv{kind: rvPtr, items: []*rv{{kind: rvInt, i: int64(x)}}, elKind: rvInt}
	case 7:
		s := []string{"7", "-1", "1.5", "x"}[vChoose(4)]
		return json.Number(s), &rv{kind: rvJNum, s: s}
	case 8:
		x := vFloat64()
		vAssume(x == x)
		return x, &rv{kind: rvF64, f64: x}
	default:
		return (*int8)(nil), &rv{kind: rvPtr, elKind: rvInt}
	}
}

const nScalarsC01 = 10

// scalar kinds used for elements of containers (keeps the product of shapes bounded)
var elemScalars = []int{0, 2, 4, 6}

// valueC01: scalars and one level of containers.
func valueC01(c int) (interface{}, *rv) {
	if c < nScalarsC01 {
		return scalarC01(c)
	}
	switch c - nScalarsC01 {
	case 0: // []interface{} of 0..2 scalars
		n := vChoose(3)
		l := make([]interface{}, n)
		m := &rv{kind: rvList, el: elIface}
		for i := 0; i < n; i++ {
			v, r := scalarC01(elemScalars[vChoose(len(elemScalars))])
			l[i] = v
			m.items = append(m.items, r)
		}
		return l, m
	case 1: // []int8
		n := vChoose(3)
		l := make([]int8, n)
		m := &rv{kind: rvList, el: elConcrete, elKind: rvInt}
		for i := 0; i < n; i++ {
			l[i] = vInt8()
			m.items = append(m.items, &rv{kind: rvInt, i: int64(l[i])})
		}
		return l, m
	case 2: // [2]string
		a := [2]string{vString(1), "q"}
		return a, &rv{kind: rvList, el: elConcrete, elKind: rvStr, items: []*rv{{kind: rvStr, s: a[0]}, {kind: rvStr, s: a[1]}}}
	case 3: // map[string]interface{} over candidate keys a, b
		mp := map[string]interface{}{}
		m := &rv{kind: rvMap}
		for _, k := range []string{"a", "b"} {
			if vBool() {
				v, r := scalarC01(elemScalars[vChoose(len(elemScalars))])
				mp[k] = v
				m.keys = append(m.keys, k)
				m.vals = append(m.vals, r)
			}
		}
		return mp, m
	case 4: // map[string]int8
		mp := map[string]int8{}
		m := &rv{kind: rvMap}
		if vBool() {
			x := vInt8()
			mp["a"] = x
			m.keys, m.vals = []string{"a"}, []*rv{{kind: rvInt, i: int64(x)}}
		}
		return mp, m
	case 5: // struct with renamed / hidden / unexported / untagged fields
		s := sC01{A: vInt8(), B: vString(1), C: vString(1), u: vInt8(), In: map[string]interface{}{"b": vInt8()}, L: []int8{vInt8()}}
		m := &rv{kind: rvStruct, fields: []rfield{
			{"A", "a", true, &rv{kind: rvInt, i: int64(s.A)}},
			{"B", "-", true, &rv{kind: rvStr, s: s.B}},
			{"C", "", true, &rv{kind: rvStr, s: s.C}},
			{"u", "", false, &rv{kind: rvInt, i: int64(s.u)}},
			{"In", "in", true, &rv{kind: rvMap, keys: []string{"b"}, vals: []*rv{{kind: rvInt, i: int64(s.In["b"].(int8))}}}},
			{"L", "", true, &rv{kind: rvList, el: elConcrete, elKind: rvInt, items: []*rv{{kind: rvInt, i: int64(s.L[0])}}}},
		}}
		if vBool() {
			return &s, &rv{kind: rvPtr, items: []*rv{m}}
		}
		return s, m
	case 6: // []*int8 with a nil element
		x := vInt8()
		return []*int8{nil, &x}, &rv{kind: rvList, el: elPtr, elKind: rvInt, items: []*rv{{kind: rvPtr, elKind: rvInt}, {kind: rvPtr, elKind: rvInt, items: []*rv{{kind: rvInt, i: int64(x)}}}}}
	case 7: // []byte
		b := []byte{vByte()}
		return b, &rv{kind: rvBytes, items: []*rv{{kind: rvUint, u: uint64(b[0])}}}
	case 8: // map[namedString]int8
		x := vInt8()
		return map[nKeyStr]int8{"a": x}, &rv{kind: rvMap, keyNamed: true, keys: []string{"a"}, vals: []*rv{{kind: rvInt, i: int64(x)}}}
	case 9: // list of maps (JSON-decoded document shape)
		x, y := vInt8(), vString(1)
		return []interface{}{map[string]interface{}{"a": x}, map[string]interface{}{"a": y, "b": nil}},
			&rv{kind: rvList, el: elIface, items: []*rv{
				{kind: rvMap, keys: []string{"a"}, vals: []*rv{{kind: rvInt, i: int64(x)}}},
				{kind: rvMap, keys: []string{"a", "b"}, vals: []*rv{{kind: rvStr, s: y}, {kind: rvNil}}}}}
	default: // []struct (no primitive comparison for elements)
		s := []sC01{{A: vInt8()}}
		return s, &rv{kind: rvList, el: elOther, items: []*rv{{kind: rvStruct, fields: []rfield{
			{"A", "a", true, &rv{kind: rvInt, i: int64(s[0].A)}}, {"B", "-", true, &rv{kind: rvStr}}, {"C", "", true, &rv{kind: rvStr}}, {"u", "", false, &rv{kind: rvInt}},
			{"In", "in", true, &rv{kind: rvMap}}, {"L", "", true, &rv{kind: rvList, el: elConcrete, elKind: rvInt}}}}}}
	}
}

const nValuesC01 = nScalarsC01 + 11

var selsC01 = []string{"x", "x.a", "x.0", "x.b", `"/x/a"`, "x.in.b", "x.C", "x.B", "y", "zz", "x.0.a", "x.1.b", `x["a"]`, "x.L", "x.a.b"}

// the empty string as a leaf is exercised by the literal "" and by C02/C09
var litsC01 = []string{"1", "x", "true", "0x1", "1.5", ""}

func leavesC01(sel string, op int, lit string) string {
	q := `"` + lit + `"`
	return exprFor(op, sel, q)
}

func checkC01(expr string, d interface{}, m *rv, unknown interface{}, um *rv) {
	var ev *Evaluator
	var err error
	if um != nil {
		ev, err = CreateEvaluator(expr, WithUnknownValue(unknown))
	} else {
		ev, err = CreateEvaluator(expr)
	}
	if err != nil {
		vFail("harness expression must parse: " + expr)
	}
	want := refEval(vAST(ev), m, um)
	vAssume(want != oUnspec)
	got, res, gerr := evalO(ev, d)
	vAssume(got != oPanic) // totality is C09's subject
	vAssert(gerr == nil || !res, expr+": error comes with false")
	vAssert(got == want, expr+": Evaluate returns the outcome the reference interpreter assigns")
}

// H_C01_match: every operator x selector form x literal on every value shape.
func H_C01_match() {
	vc := vChoose(nValuesC01)
	op := vChoose(8)
	xv, xm := valueC01(vc)
	yv, ym := scalarC01(0)
	d := map[string]interface{}{"x": xv, "y": yv}
	m := &rv{kind: rvMap, keys: []string{"x", "y"}, vals: []*rv{xm, ym}}
	var sel, lit string
	withUnknown, unk := false, 0
	if vTier() == 0 {
		// quick: every (shape, operator) pair, with five structural selector
		// forms plus one seed-selected other, "1" plus one seed-selected
		// literal, no unknown value or one seed-selected
		// selsC01: 0 x, 1 x.a, 2 x.0, 3 x.b (absent leaf), 14 x.a.b (three parts: absent or scalar middle)
		sel = selsC01[[]int{0, 1, 2, 3, 14, 4 + vSeed()%10}[vChoose(6)]]
		lit = litsC01[[]int{0, 1 + vSeed()%5}[vChoose(2)]]
		withUnknown, unk = vChoose(2) == 0, vSeed()%3
	} else {
		sel = selsC01[vChoose(len(selsC01))]
		lit = litsC01[vChoose(len(litsC01))]
		if vChoose(4) == 0 {
			withUnknown, unk = true, vChoose(3)
		}
	}
	if withUnknown {
		u, um := scalarC01(unk)
		checkC01(leavesC01(sel, op, lit), d, m, u, um)
	} else {
		checkC01(leavesC01(sel, op, lit), d, m, nil, nil)
	}
	vCover("reached")
}

var compositesC01 = []string{
	`not A`, `A and B`, `A or B`, `not (A and not B)`, `A and B or A`, `any x as e { E }`, `all x as e { E }`, `any x as i, v { V or i == 1 }`, `all x as k, _ { K }`,
	`(any x as _, v { V }) and A`, `A or all x as e { E }`, `any x as e { any e as f { F } }`, `any x as e { any e as _, v { V } }`, `all x as e { any e as k, v { V and k != "zz" } }`, `(all x as k { k == "a" }) or B`,
}

// H_C01_composite: connectives and quantifiers around the leaves.
func H_C01_composite() {
	vc := vChoose(nValuesC01)
	op := vChoose(8)
	xv, xm := valueC01(vc)
	yv, ym := scalarC01(0)
	d := map[string]interface{}{"x": xv, "y": yv}
	m := &rv{kind: rvMap, keys: []string{"x", "y"}, vals: []*rv{xm, ym}}
	var lit string
	ti := 0
	if vTier() == 0 {
		// quick: every (shape, operator) pair under three seed-selected templates and one literal
		lit = litsC01[vSeed()%2]
		ti = (vSeed() + 5*vChoose(3)) % len(compositesC01)
	} else {
		lit = litsC01[vChoose(2)]
		ti = vChoose(len(compositesC01))
	}
	si := vChoose(3)
	A := leavesC01([]string{"x", "x.a", "x.0"}[si], op, lit)
	B := `y == 1`
	E := leavesC01([]string{"e", "e.a", `"/e/b"`}[si], op, lit)
	V := leavesC01("v", op, lit)
	K := leavesC01("k", op, lit)
	F := leavesC01("f", op, lit)
	t := compositesC01[ti]
	expr := ""
	for i := 0; i < len(t); i++ {
		switch t[i] {
		case 'A':
			expr += "(" + A + ")"
		case 'B':
			expr += "(" + B + ")"
		case 'E':
			expr += E
		case 'V':
			expr += V
		case 'K':
			expr += K
		case 'F':
			expr += F
		default:
			expr += t[i : i+1]
		}
	}
	checkC01(expr, d, m, nil, nil)
	vCover("reached")
}

// H_C01_representations: one logical document in three Go representations
// (JSON-decoded, tagged struct, typed maps) gives one outcome.
type docC01 struct {
	Name string           `bexpr:"name"`
	N    int64            `bexpr:"n"`
	Tags []string         `bexpr:"tags"`
	Meta map[string]int64 `bexpr:"meta"`
}

func H_C01_representations() {
	name := vString(1)
	js := []string{"3", "-7", "0"}[vChoose(3)]
	n, _ := json.Number(js).Int64()
	tag := vString(1)
	mv := vInt8()
	jsonDoc := map[string]interface{}{"name": name, "n": json.Number(js), "tags": []interface{}{tag, "t"}, "meta": map[string]interface{}{"k": int64(mv)}}
	structDoc := docC01{Name: name, N: n, Tags: []string{tag, "t"}, Meta: map[string]int64{"k": int64(mv)}}
	mapDoc := map[string]interface{}{"name": nStr(name), "n": n, "tags": [2]string{tag, "t"}, "meta": map[string]int64{"k": int64(mv)}}
	exprs := []string{`name == "a"`, `n == 3`, `n != -7`, `"t" in tags`, `a in tags`, `tags is not empty`, `meta.k == 1`, `meta.zz != 1`, `"k" in meta`, `any tags as t { t == "a" }`, `all meta as k, v { v != 1 and k == "k" }`, `name matches "^a"`, `tags.0 == "a"`, `"/meta/k" == 1`, `n in tags`, `a in name`}
	e := exprs[vChoose(len(exprs))]
	o1, _, _ := evalO(mustCreate(e), jsonDoc)
	o2, _, _ := evalO(mustCreate(e), structDoc)
	o3, _, _ := evalO(mustCreate(e), mapDoc)
	o4, _, _ := evalO(mustCreate(e), &structDoc)
	vAssert(o1 == o2 && o1 == o3 && o1 == o4, e+": every Go representation of the document gives one outcome")
	vCover("reached")
}

var _ = grammar.MatchEqual

// H_C01_jsonnumber: json.Number leaves incl. integers beyond 2^53 (read as int64, not through a float).
func H_C01_jsonnumber() {
	js := []string{"9007199254740993", "9007199254740992", "-9007199254740993", "9223372036854775807", "9223372036854775808", "12", "1e3", "0.5", "1.0"}[vChoose(9)]
	lit := []string{"9007199254740993", "9007199254740992", "9223372036854775807", "12", "1000", "0.5", "1", "x"}[vChoose(8)]
	op := vChoose(4)
	var d interface{} = map[string]interface{}{"x": json.Number(js)}
	m := &rv{kind: rvMap, keys: []string{"x"}, vals: []*rv{{kind: rvJNum, s: js}}}
	sel := "x"
	if vBool() {
		d = map[string]interface{}{"x": []interface{}{json.Number(js)}}
		m = &rv{kind: rvMap, keys: []string{"x"}, vals: []*rv{{kind: rvList, el: elIface, items: []*rv{{kind: rvJNum, s: js}}}}}
		sel = "x.0"
	}
	checkC01(leavesC01(sel, op, lit), d, m, nil, nil)
	vCover("reached")
}

// H_C01_nested: nested quantifiers whose inner collection / body is reached
// through the outer binding (alias rewriting), on the shapes that have two levels.
func H_C01_nested() {
	vc := []int{nScalarsC01 + 0, nScalarsC01 + 3, nScalarsC01 + 9, nScalarsC01 + 5}[vChoose(4)]
	xv, xm := valueC01(vc)
	d := map[string]interface{}{"x": xv, "y": int8(1)}
	m := &rv{kind: rvMap, keys: []string{"x", "y"}, vals: []*rv{xm, {kind: rvInt, i: 1}}}
	op := vChoose(8)
	lit := litsC01[vChoose(2)]
	V := leavesC01("v", op, lit)
	F := leavesC01("f", op, lit)
	t := []string{
		`any x as e { any e as f { F } }`, `any x as e { any e as _, v { V } }`, `all x as e { any e as k, v { V and k != "zz" } }`,
		`any x as e { (all e as k, _ { k != "zz" }) and e.a == "1" }`, `all x as i, e { any e as _, v { V or i == 7 } }`, `any x as v { any v as _, v { V } }`,
	}[vChoose(6)]
	expr := ""
	for i := 0; i < len(t); i++ {
		switch t[i] {
		case 'V':
			expr += V
		case 'F':
			expr += F
		default:
			expr += t[i : i+1]
		}
	}
	checkC01(expr, d, m, nil, nil)
	vCover("reached")
}

// H_C01_floats: float32 / float64 leaves against boundary float spellings.
func H_C01_floats() {
	lit := []string{"1.5", "3.5e38", "1e39", "16777217", "1.00000005960464477539062500001", "0.1", "010", "0x10", "x", "-0"}[vChoose(10)]
	op := vChoose(4)
	var v interface{}
	var r *rv
	switch vChoose(4) {
	case 0:
		x := vFloat32()
		vAssume(x == x)
		v, r = x, &rv{kind: rvF32, f32: x}
	case 1:
		x := vFloat64()
		vAssume(x == x)
		v, r = x, &rv{kind: rvF64, f64: x}
	case 2:
		x := vFloat32()
		vAssume(x == x)
		v, r = []float32{x}, &rv{kind: rvList, el: elConcrete, elKind: rvF32, items: []*rv{{kind: rvF32, f32: x}}}
	default:
		x := vFloat32()
		vAssume(x == x)
		v, r = []interface{}{x, "s"}, &rv{kind: rvList, el: elIface, items: []*rv{{kind: rvF32, f32: x}, {kind: rvStr, s: "s"}}}
	}
	d := map[string]interface{}{"x": v}
	m := &rv{kind: rvMap, keys: []string{"x"}, vals: []*rv{r}}
	checkC01(leavesC01("x", op, lit), d, m, nil, nil)
	vCover("reached")
}

// H_C01_unicode: string leaves and literals with multi-byte runes, among them
// U+FFFD (which the parser must not mistake for a decoding error) and the
// last code point.
func H_C01_unicode() {
	lit := []string{"caf�", "�", "é￼", "日本", "\U0010FFFF"}[vChoose(5)]
	var s string
	switch vChoose(3) {
	case 0:
		s = lit
	case 1:
		s = lit + "z"
	default:
		s = vString(1)
	}
	op := vChoose(8)
	d := map[string]interface{}{"x": s, "y": int8(0)}
	m := &rv{kind: rvMap, keys: []string{"x", "y"}, vals: []*rv{{kind: rvStr, s: s}, {kind: rvInt, i: 0}}}
	q := `"` + lit + `"`
	if vBool() {
		q = "`" + lit + "`"
	}
	checkC01(exprFor(op, "x", q), d, m, nil, nil)
	vCover("reached")
}
