package bexpr

// C16 (evaluation side): a quoted literal denotes exactly the Go string it spells:
// `X == <quoted s>` is true of X = s.

const hexd = "0123456789abcdef"

func H_C16_quoted_literal() {
	var s, lit string
	switch vChoose(5) {
	case 0: // verbatim bytes in double quotes (valid UTF-8 is needed for acceptance: ASCII here)
		s = vString(2)
		for i := 0; i < len(s); i++ {
			vAssume(s[i] >= 0x20 && s[i] < 0x7f && s[i] != '"' && s[i] != '\\')
		}
		lit = `"` + s + `"`
	case 1: // backtick (Go raw-string reading: no backtick; carriage returns are dropped)
		s = vString(2)
		for i := 0; i < len(s); i++ {
			vAssume(s[i] != '`' && s[i] != '\r' && s[i] < 0x80)
		}
		lit = "`" + s + "`"
	case 2: // any single byte through a \x escape
		hi, lo := vChoose(16), vChoose(16)
		s = string([]byte{byte(hi<<4 | lo)})
		lit = `"\x` + hexd[hi:hi+1] + hexd[lo:lo+1] + `"`
	case 3: // strings with a leading slash, quotes, backslashes, unicode, control characters
		c := vChoose(12)
		s = []string{"/usr/bin", "/", "a\"b", "a\\b", "é١", "\t\n", "", "/a~1b", "a\uFFFDb", "\uFFFD", "\uFFFC\U0010FFFF", "caf\uFFFD"}[c]
		lit = []string{`"/usr/bin"`, `"/"`, `"a\"b"`, `"a\\b"`, `"é١"`, `"\t\n"`, `""`, `"/a~1b"`, "\"a\uFFFDb\"", "`\uFFFD`", "\"\uFFFC\U0010FFFF\"", `"caf\ufffd"`}[c]
	default: // leading slash + one symbolic pointer-safe byte
		b := vStringN(1)
		vAssume(b[0] >= 'a' && b[0] <= 'z' || b[0] >= '0' && b[0] <= '9' || b[0] == '.' || b[0] == '-')
		s = "/" + b + "/x"
		lit = `"` + s + `"`
	}
	ev, err := CreateEvaluator("X == " + lit)
	if lit == `"a\"b"` {
		// a double-quoted literal ends at the first quote: \" is not expressible (documented boundary)
		vAssert(err != nil, "escaped quote inside a double-quoted literal is rejected")
		return
	}
	vAssert(err == nil, "quoted literal is accepted: "+lit)
	if err != nil {
		return
	}
	o, _, _ := evalO(ev, map[string]interface{}{"X": s})
	vAssert(o == oTrue, "X == <quoted s> is true of X = s: "+lit)
	o2, _, _ := evalO(ev, map[string]interface{}{"X": s + "z"})
	vAssert(o2 == oFalse, "X == <quoted s> is false of X = s+z: "+lit)
	// the same literal on the left of `in`
	ev2, err2 := CreateEvaluator(lit + " in L")
	vAssert(err2 == nil, "quoted literal is accepted before in: "+lit)
	if err2 == nil {
		o3, _, _ := evalO(ev2, map[string]interface{}{"L": []string{"other", s}})
		vAssert(o3 == oTrue, "<quoted s> in L is true when L holds s: "+lit)
	}
	vCover("reached")
}
