package bexpr

// C10 — creating an evaluator is total on arbitrary bytes: evaluator xor error, no panic.

import (
	"github.com/hashicorp/go-bexpr/grammar"
)

type discardW struct{ n int }

func (w *discardW) Write(p []byte) (int, error) { w.n += len(p); return len(p), nil }

// checkCreate runs the three entry points on input s and checks the contract.
func checkCreate(s string, what string) bool { return checkCreateF(s, what, true) }

func checkCreateF(s string, what string, withFilter bool) bool {
	ast, perr := grammar.Parse("", []byte(s))
	ev, cerr := CreateEvaluator(s)
	vAssert((ev == nil) != (cerr == nil), what+": CreateEvaluator returns an evaluator xor an error")
	vAssert((perr == nil) == (cerr == nil), what+": grammar.Parse accepts exactly what CreateEvaluator accepts")
	if perr == nil {
		_, isExpr := ast.(grammar.Expression)
		vAssert(ast != nil && isExpr, what+": accepted input yields a non-nil Expression")
	}
	if !withFilter {
		goto evaluated
	}
	{
		f, ferr := CreateFilter(s)
		if s == "" {
			vAssert(f == nil && ferr == nil, "empty input: the documented nil filter")
		} else {
			vAssert((f == nil) != (ferr == nil), what+": CreateFilter returns a filter xor an error")
			vAssert((ferr == nil) == (cerr == nil), what+": CreateFilter accepts exactly what CreateEvaluator accepts")
		}
	}
evaluated:
	if cerr == nil {
		// a returned evaluator can always be evaluated, and its tree dumped
		o1, _, _ := evalO(ev, nil)
		vAssert(o1 != oPanic, what+": evaluating an accepted expression on nil does not panic")
		o2, _, _ := evalO(ev, map[string]interface{}{"a": "1", "b": "x", "c": []interface{}{1, "y"}, "d": map[string]interface{}{"e": true}})
		vAssert(o2 != oPanic, what+": evaluating an accepted expression on a small datum does not panic")
		w := &discardW{}
		ast.(grammar.Expression).ExpressionDump(w, " ", 1)
		vAssert(w.n > 0, what+": the dump of an accepted tree is not empty")
	}
	return cerr == nil
}

// H_C10_symbolic: every byte string up to the bound.
func H_C10_symbolic() {
	n := 3
	if vTier() > 0 {
		n = 4
	}
	checkCreateF(vString(n), "symbolic input", vTier() > 0)
	vCover("reached")
}

var corpusC10 = []string{
	`a == 1`, `a != "x"`, `"x" in a`, `a matches "("`, `b not matches "[a-"`, `a matches "a**"`, `a not in b`, `a contains 1`, `a not contains x`, `a is empty`, `a is not empty`, `a matches "^x"`, `a not matches "x"`,
	`a == 1 and b == 2`, `a == 1 or b == 2`, `not a == 1`, `not not a == 1`, `(a == 1)`, `( a == 1 )`, `a.b.c == 1`, `a["b"].c == 1`, "a[`b`] == 1", `"/a/b" == 1`,
	`any a as x { x == 1 }`, `all a as i, v { v != 1 }`, `any a as _, v { v == 1 }`, `all a as i, _ { i == 0 }`, `any "/a" as x { x.b == 1 }`,
	`a == -1.5`, `a == 0`, `a == "\t\x41é"`, "a == `raw`", `a.0 == 1`, `a/b == 1`, `a == b.c`, `1 in a`, `-1.5 in a`, `a == "/x/y"`,
	"a == \"x\uFFFDy\"", "a == 1\uFFFD", "a == `\uFFFD`", "a == 1\f", "\va == 1", "a == 1\u00a0", "a == 1\u2028",
	`a == 1 and (b == 2 or not c in d)`, `a == "é"`, ` a==1 `, "a\t==\n1", `(((((foo == 3)))))`, `(((((((a == 1)))))))`, "a == `x\ry`", `not ((((not (foo in bar)))))`, `((((((a == 1 or b == 2))))))`,
	// invalid inputs: every error production
	`(a == 1`, `a == 1x`, `a[1] == 2`, `a["b" == 1`, `a == "x`, "a == `x", `1 in `, `x in 5`, `a == "\q"`, `a ==`, `== 1`, `a = 1`, `any a as _ { x == 1 }`, `a == 01`, `a == 1.`, "a == \"\xff\"", `a is`, `not`, `a == 1 or`, `{`,
}

// H_C10_windows: every 1-byte window of every corpus string replaced by an
// unconstrained byte, and every position receiving an inserted byte.
func H_C10_windows() {
	ci := vChoose(len(corpusC10))
	if vTier() == 0 {
		// quick: a seed-dependent eighth of the corpus
		vAssume(ci%8 == vSeed()%8)
	}
	s := corpusC10[ci]
	if len(s) > 14 && s[:3] == "(((" || len(s) > 14 && s[:5] == "not (" {
		return // deep nesting: covered concretely (a window over it costs 10^5 parser steps per path)
	}
	pos := vChoose(len(s) + 1)
	var in string
	if vBool() && pos < len(s) {
		in = s[:pos] + vStringN(1) + s[pos+1:]
	} else {
		in = s[:pos] + vStringN(1) + s[pos:]
	}
	checkCreate(in, "window over "+s)
	vCover("reached")
}

// H_C10_corpus: the corpus itself (concrete), every string.
func H_C10_corpus() {
	s := corpusC10[vChoose(len(corpusC10))]
	if vTier() == 0 && len(s) > 6 && s[:7] == "(((((((" {
		return // seven nested parentheses cost ~10^8 executor steps: thorough tier only
	}
	if checkCreate(s, s) {
		vCover("accepted")
	} else {
		vCover("rejected")
	}
}
