package bexpr

import "reflect"

// Hooks used by C12/C18 harnesses.
func hookIdentityC18(v reflect.Value) reflect.Value { return v }

// hookUnwrapC18 replaces a wrapC12 struct by the map it wraps.
func hookUnwrapC18(v reflect.Value) reflect.Value {
	if v.IsValid() && v.Kind() == reflect.Struct && v.NumField() == 1 && v.Type().Field(0).Name == "V" {
		return v.Field(0)
	}
	return v
}
