package bexpr

// C18 — options act only on their own aspect, in any order, on every Evaluate.

import "reflect"

type sC18 struct {
	A int8   `bexpr:"a" alt:"x"`
	B string `bexpr:"-" alt:"b"`
	W wrapC12
	L []interface{}
}

// sC18u is sC18 as the unwrap hook presents it (W replaced by the map it wraps).
type sC18u struct {
	A int8   `bexpr:"a" alt:"x"`
	B string `bexpr:"-" alt:"b"`
	W map[string]interface{}
	L []interface{}
}

func hookConstC18(v reflect.Value) reflect.Value {
	if v.IsValid() && v.Kind() == reflect.Int8 {
		return reflect.ValueOf(int8(1))
	}
	return v
}

var exprsC18 = []string{`L.010 == 1`, `"/L/08" == 1`, `L.9 == 1`, `a == 1`, `x == 1`, `A == 1`, `W.k == 1`, `zz == 1`, `b == "s"`, `B == "s"`, `a != 1 or W.k == 2`, `any W as k, v { v == 1 }`}

// optC18 builds option number c of kind k (0 tag, 1 hook, 2 unknown, 3 budget).
func optC18(k, c int, u interface{}) Option {
	switch k {
	case 0:
		return WithTagName([]string{"bexpr", "alt", ""}[c%3])
	case 1:
		return WithHookFn([]ValueTransformationHookFn{hookIdentityC18, hookUnwrapC18, hookConstC18}[c%3])
	case 2:
		if c%2 == 0 {
			return WithUnknownValue(u)
		}
		return WithUnknownValue("other")
	default:
		return WithMaxExpressions([]uint64{0, 1000000, 1 << 40}[c%3])
	}
}

func datumC18() sC18 {
	l := make([]interface{}, 12)
	for i := range l {
		l[i] = int8(0)
	}
	l[8], l[9], l[10] = vInt8(), vInt8(), vInt8()
	return sC18{A: vInt8(), B: vString(1), W: wrapC12{V: map[string]interface{}{"k": vInt8()}}, L: l}
}

// H_C18_order: two distinct options in either order.
func H_C18_order() {
	expr := exprsC18[vChoose(len(exprsC18))]
	k1 := vChoose(4)
	k2 := vChoose(4)
	vAssume(k1 < k2)
	u := interface{}(vInt8())
	c1, c2 := vChoose(3), vChoose(3)
	d := datumC18()
	e1, err1 := CreateEvaluator(expr, optC18(k1, c1, u), optC18(k2, c2, u))
	e2, err2 := CreateEvaluator(expr, optC18(k2, c2, u), optC18(k1, c1, u))
	vAssert((err1 == nil) == (err2 == nil), "creation succeeds in either option order")
	vAssume(err1 == nil && err2 == nil)
	o1, _, _ := evalO(e1, d)
	o2, _, _ := evalO(e2, d)
	vAssert(o1 == o2, "option order is irrelevant: "+expr)
	o3, _, _ := evalO(e1, d)
	vAssert(o1 == o3, "options govern every Evaluate call: "+expr)
	vCover("reached")
}

// H_C18_last_wins: the last of repeated options wins.
// H_C18_budget_last_wins: the parse budget is an option like the others — the
// last one given decides, also when it is 0 (unlimited) after a tiny one, or
// tiny after a generous one; creation succeeds or fails accordingly.
func H_C18_budget_last_wins() {
	expr := []string{`a == 1`, `a == 1 and B == "s"`, `any W as k, v { v == 1 }`}[vChoose(3)]
	budgets := []uint64{0, 3, 1 << 40, 50}
	b1, b2 := budgets[vChoose(4)], budgets[vChoose(4)]
	var mid []Option
	switch vChoose(3) {
	case 1:
		mid = []Option{WithTagName("bexpr")}
	case 2:
		mid = []Option{WithUnknownValue(1), WithHookFn(hookIdentityC18)}
	}
	opts := append(append([]Option{WithMaxExpressions(b1)}, mid...), WithMaxExpressions(b2))
	e1, err1 := CreateEvaluator(expr, opts...)
	e2, err2 := CreateEvaluator(expr, WithMaxExpressions(b2))
	vAssert((err1 == nil) == (err2 == nil), "the last budget decides whether creation succeeds")
	vAssert((e1 == nil) == (err1 != nil), "evaluator xor error")
	if err1 == nil && err2 == nil {
		d := datumC18()
		o1, _, _ := evalO(e1, d)
		o2, _, _ := evalO(e2, d)
		vAssert(o1 == o2, "and nothing else changes")
	}
	vCover("reached")
}

func H_C18_last_wins() {
	expr := exprsC18[vChoose(len(exprsC18))]
	k := vChoose(4)
	u := interface{}(vInt8())
	c1, c2 := vChoose(3), vChoose(3)
	d := datumC18()
	e1, err1 := CreateEvaluator(expr, optC18(k, c1, u), optC18(k, c2, u))
	e2, err2 := CreateEvaluator(expr, optC18(k, c2, u))
	vAssume(err1 == nil && err2 == nil)
	o1, _, _ := evalO(e1, d)
	o2, _, _ := evalO(e2, d)
	vAssert(o1 == o2, "the last of repeated options wins: "+expr)
	// ... also with an unrelated option in between
	k3 := (k + 1) % 4
	e3, err3 := CreateEvaluator(expr, optC18(k, c1, u), optC18(k3, 0, u), optC18(k, c2, u))
	e4, err4 := CreateEvaluator(expr, optC18(k3, 0, u), optC18(k, c2, u))
	vAssume(err3 == nil && err4 == nil)
	o3, _, _ := evalO(e3, d)
	o4, _, _ := evalO(e4, d)
	vAssert(o3 == o4, "the last of repeated options wins (unrelated option in between): "+expr)
	vCover("reached")
}

// H_C18_neutral: neutral settings are no-ops.
func H_C18_neutral() {
	expr := exprsC18[vChoose(len(exprsC18))]
	sd := datumC18()
	var d interface{} = sd
	if vBool() {
		// the same document as plain maps and lists
		d = map[string]interface{}{"a": sd.A, "L": sd.L, "W": map[string]interface{}{"k": sd.W.V["k"]}, "b": sd.B}
	}
	base, err0 := CreateEvaluator(expr)
	vAssume(err0 == nil)
	ob, _, _ := evalO(base, d)
	var o Option
	what := ""
	switch vChoose(6) {
	case 0:
		o, what = WithHookFn(hookIdentityC18), "identity hook"
	case 1:
		o, what = WithTagName("bexpr"), "tag name bexpr"
	case 2:
		o, what = WithMaxExpressions(0), "budget 0"
	case 3:
		o, what = WithMaxExpressions(vUint64()|1<<32), "budget far above the parse's step count"
	case 4:
		o, what = nil, "nil option"
	default:
		o, what = WithHookFn(nil), "nil hook"
	}
	ev, err := CreateEvaluator(expr, o)
	vAssert(err == nil, what+": creation succeeds")
	vAssume(err == nil)
	on, _, _ := evalO(ev, d)
	vAssert(on == ob, what+" is a no-op: "+expr)
	// an unknown value does not matter when every selector resolves
	if ob != oError {
		evu, _ := CreateEvaluator(expr, WithUnknownValue(vInt8()))
		ou, _, _ := evalO(evu, d)
		if expr != `zz == 1` && expr != `W.k == 1` && expr != `a != 1 or W.k == 2` && expr != `B == "s"` {
			vAssert(ou == ob, "unknown value is a no-op when every selector resolves: "+expr)
		}
	}
	vCover("reached")
}

// H_C18_hook: the hook's replacement is what the operators see; tag name selects the tag.
func H_C18_hook() {
	expr := []string{`W.k == 1`, `"k" in W`, `W is not empty`, `any W as k, v { v == 1 }`, `a == 1 and W.k != 1`, `W.zz != 1`, `W.zz is empty or a == 1`}[vChoose(7)]
	d := datumC18()
	du := sC18u{A: d.A, B: d.B, W: d.W.V, L: d.L}
	e1, err1 := CreateEvaluator(expr, WithHookFn(hookUnwrapC18))
	e2, err2 := CreateEvaluator(expr)
	vAssume(err1 == nil && err2 == nil)
	o1, _, _ := evalO(e1, d)
	o2, _, _ := evalO(e2, du)
	vAssert(o1 == o2, "with the unwrap hook the operators see the replacement: "+expr)
	// tag name
	ea, _ := CreateEvaluator(`x == 1`, WithTagName("alt"))
	eb, _ := CreateEvaluator(`a == 1`)
	oa, _, _ := evalO(ea, d)
	ob, _, _ := evalO(eb, d)
	vAssert(oa == ob, "alt tag name selects the alt tag")
	ec, _ := CreateEvaluator(`a == 1`, WithTagName("alt"))
	oc, _, _ := evalO(ec, d)
	vAssert(oc == oError, "under the alt tag the bexpr tag name does not resolve")
	vCover("reached")
}

// H_C18_fixed_at_creation: the options are read when the evaluator is
// created; what the caller does afterwards with the slice it passed — reuse
// it for another evaluator, overwrite or clear an entry — is not an option
// given to this evaluator and changes nothing.
func H_C18_fixed_at_creation() {
	expr := exprsC18[3+vChoose(len(exprsC18)-3)]
	u := interface{}(vInt8())
	k2, c2 := vChoose(4), vChoose(3)
	k3, c3 := (k2+vChoose(2))%4, vChoose(3) // the later write is an option of the same kind, or of the next one
	d := datumC18()
	base := make([]Option, 1, 4) // spare capacity, as in opts = append(base, ...)
	base[0] = WithMaxExpressions(0)
	mine := append(base, optC18(k2, c2, u))
	ev, err := CreateEvaluator(expr, mine...)
	vAssume(err == nil)
	o1, _, _ := evalO(ev, d)
	switch vChoose(3) {
	case 0: // a second evaluator derived from the same base slice
		other := append(base, optC18(k3, c3, u))
		CreateEvaluator(expr, other...)
	case 1: // an entry overwritten
		mine[1] = optC18(k3, c3, u)
	default: // the slice cleared
		mine[0], mine[1] = nil, nil
	}
	o2, _, _ := evalO(ev, d)
	vAssert(o1 == o2, "options are fixed at creation; later writes to the caller's slice change nothing: "+expr)
	vCover("reached")
}

// H_C18_unknown_applies: the unknown value is what an absent key or field
// evaluates to on every call, at any depth, whatever other options accompany
// it and in whatever order: the outcome equals that of a datum holding the
// value at that place, evaluated without the option.
func H_C18_unknown_applies() {
	u := vInt8()
	v := vInt8()
	expr := []string{`m.zz == 1`, `m.zz != 1`, `zz == 1`, `m.n.zz == 1`, `1 in m.zz`, `any l as x { x.zz == 1 }`, `"/m/zz" == 1`}[vChoose(7)]
	mk := func(with bool) map[string]interface{} {
		inner := map[string]interface{}{"k": v}
		deep := map[string]interface{}{"k": v}
		el := map[string]interface{}{"k": v}
		d := map[string]interface{}{"m": inner, "l": []interface{}{el}}
		inner["n"] = deep
		if with {
			inner["zz"], deep["zz"], el["zz"], d["zz"] = u, u, u, u
		}
		return d
	}
	other := []Option{nil, WithTagName("alt"), WithHookFn(hookIdentityC18), WithMaxExpressions(0)}[vChoose(4)]
	opts := []Option{WithUnknownValue(u)}
	if other != nil {
		if vBool() {
			opts = []Option{other, WithUnknownValue(u)}
		} else {
			opts = []Option{WithUnknownValue(u), other}
		}
	}
	evU, err := CreateEvaluator(expr, opts...)
	vAssume(err == nil)
	o1, _, _ := evalO(evU, mk(false))
	o2, _, _ := evalO(mustCreate(expr), mk(true))
	vAssert(o1 == o2, "an absent key evaluates as the unknown value: "+expr)
	o3, _, _ := evalO(evU, mk(false))
	vAssert(o1 == o3, "on every call: "+expr)
	vCover("reached")
}

// H_C18_hook_every_value: the hook is consulted for every value the walk
// reaches, on every call — also for values sitting in interface-typed slots
// next to plain ones, after plain values of the same static type were seen,
// and on later calls of the same evaluator.
func H_C18_hook_every_value() {
	v, w := vInt8(), vInt8()
	wrapped := map[string]interface{}{"name": "n", "w": wrapC06{V: v}, "l": []interface{}{w, wrapC06{V: v}, &wrapC06{V: map[string]interface{}{"k": v}}}}
	plain := map[string]interface{}{"name": "n", "w": v, "l": []interface{}{w, v, map[string]interface{}{"k": v}}}
	expr := []string{`w == 1`, `l.1 == 1`, `l.0 == 1 or l.1 == 1`, `any l as e { e == 1 }`, `l.2.k == 1`, `name == "n" and w == 1`, `all l as i, e { i == 2 or e != 1 }`}[vChoose(7)]
	eh, err := CreateEvaluator(expr, WithHookFn(hookUnwrapC06))
	vAssume(err == nil)
	ep := mustCreate(expr)
	if vBool() {
		evalO(eh, plain) // an earlier call on data the hook leaves alone
	}
	o1, _, _ := evalO(eh, wrapped)
	o2, _, _ := evalO(ep, plain)
	vAssert(o1 == o2, "the operators see the hook's replacement for every wrapped value: "+expr)
	o3, _, _ := evalO(eh, wrapped)
	vAssert(o3 == o1, "and on every call: "+expr)
	vCover("reached")
}
