package bexpr

// C09 — Evaluate is total: no panic, and an error always comes with false.
// Operator x kind matrix over every reflect-constructible shape.

import (
	"encoding/json"
	"errors"
	"unsafe"
)

type strC09 interface{ String() string }
type sstrC09 string

func (s sstrC09) String() string { return string(s) }

type sC09 struct {
	A int
	b string
}

type nKeyStr string

const nShapes = 58

type nDigestC09 [2]byte

// shapeC09 builds the value the selector `a` resolves to.
func shapeC09(k int) (interface{}, string) {
	switch k {
	case 0:
		return nil, "nil"
	case 1:
		return vBool(), "bool"
	case 2:
		return vInt(), "int"
	case 3:
		return vInt8(), "int8"
	case 4:
		return vUint16(), "uint16"
	case 5:
		return vUint64(), "uint64"
	case 6:
		return vFloat32(), "float32"
	case 7:
		return vFloat64(), "float64"
	case 8:
		return vString(2), "string"
	case 9:
		return complex(1, 2), "complex128"
	case 10:
		return (chan int)(nil), "chan"
	case 11:
		return func() {}, "func"
	case 12:
		x := vInt()
		return &x, "*int"
	case 13:
		return (*int)(nil), "nil *int"
	case 14:
		x := vInt()
		p := &x
		return &p, "**int"
	case 15:
		return []int{vInt()}, "[]int"
	case 16:
		return []string{vString(1), "b"}, "[]string"
	case 17:
		return [2]int{vInt(), 2}, "[2]int"
	case 18:
		return []interface{}{nil, "1"}, "[]interface{nil,string}"
	case 19:
		return []*int{nil}, "[]*int{nil}"
	case 20:
		return []interface{}{vInt(), vString(1)}, "[]interface{int,string}"
	case 21:
		return map[string]string{vString(1): "v"}, "map[string]string"
	case 22:
		return map[int]string{1: "v"}, "map[int]string"
	case 23:
		return map[nKeyStr]string{"1": "v"}, "map[namedString]string"
	case 24:
		return map[string]interface{}{"x": nil}, "map[string]interface{}"
	case 25:
		return sC09{A: vInt()}, "struct"
	case 26:
		return &sC09{A: vInt()}, "*struct"
	case 27:
		return json.Number("12"), "json.Number"
	case 28:
		return nInt(vInt64()), "named int"
	case 29:
		return nStr(vString(1)), "named string"
	case 30:
		return []byte{vByte()}, "[]byte"
	case 31:
		return map[string]int(nil), "nil map"
	case 32:
		return []int(nil), "nil slice"
	case 33:
		return uintptr(7), "uintptr"
	case 34:
		return unsafe.Pointer(nil), "unsafe.Pointer"
	case 35:
		return map[interface{}]string{"1": "v", 2: "w"}, "map[interface{}]string"
	case 36:
		return [0]int{}, "[0]int"
	case 37:
		return []interface{}{(*int)(nil)}, "[]interface{nil *int}"
	case 38:
		x := vInt()
		p := &x
		return []**int{&p}, "[]**int"
	case 39:
		return []interface{}{[]int{1}}, "[]interface{[]int}"
	case 40:
		return json.Number("x"), "bad json.Number"
	case 41:
		return []nUint8{nUint8(vUint8())}, "[]namedUint8"
	case 42:
		return map[string][]int{"x": nil}, "map[string][]int"
	case 43:
		x := vString(1)
		return &x, "*string"
	case 44:
		return [2]byte{vByte(), 'b'}, "[2]byte"
	case 45:
		return nDigestC09{vByte(), 'b'}, "named [2]byte"
	case 46:
		return &[2]byte{vByte(), 'b'}, "*[2]byte"
	case 47:
		return [1]string{vString(1)}, "[1]string"
	case 48:
		return map[string]*int{"x": nil}, "map[string]*int{nil}"
	case 49:
		return []map[string]int{{"a": 1}, nil}, "[]map[string]int"
	case 50:
		var i interface{} = vInt()
		return &i, "*interface{}"
	case 51:
		return [2]interface{}{nil, vString(1)}, "[2]interface{}"
	case 52: // an incomparable element before ones that may match
		return []interface{}{map[string]interface{}{"k": 1}, vString(1), vInt()}, "[]interface{map,string,int}"
	case 53:
		return []interface{}{[]int{1}, nil, vString(1)}, "[]interface{[]int,nil,string}"
	case 54: // maps keyed by a non-empty interface: a string is not assignable to the key type
		return map[error]string{errors.New("1"): "v"}, "map[error]string"
	case 55:
		return map[strC09]int{sstrC09("1"): 1}, "map[Stringer]int"
	case 56:
		return map[bool]string{true: "v"}, "map[bool]string"
	default:
		return map[interface{}]interface{}{"1": 1, [2]int{1, 2}: 2, 5: 3, nil: 4}, "map[interface{}] with array, int and nil keys"
	}
}

// litC09 picks the literal: symbolic bytes unless the operand is a regular
// expression or would be read by strconv.ParseFloat (both are environment and
// are given concrete spellings only).
func litC09(op int, shape string) (string, bool) {
	n := 6
	if op >= 6 || shape == "float32" || shape == "float64" || shape == "[]interface{int,string}" {
		n = 5
	}
	switch 5 - vChoose(n) {
	case 0:
		return vString(2), false
	case 1:
		return "1", true
	case 2:
		return "true", true
	case 3:
		return "x", true
	case 4:
		return "(", true
	default:
		return "1.5", true
	}
}

func checkTotal(ev *Evaluator, d interface{}, what string) {
	o, res, err := evalO(ev, d)
	vAssert(o != oPanic, what+": Evaluate panicked")
	vAssert(err == nil || !res, what+": error returned together with true")
}

// H_C09_matrix: 8 operators x shapes x literal, selector resolves directly.
func H_C09_matrix() {
	op := vChoose(8)
	sc := vChoose(nShapes)
	v, name := shapeC09(sc)
	ev := mustCreate(exprFor(op, "a", "x"))
	if hasValue(op) {
		lit, concrete := litC09(op, name)
		ev = createWithLit(op, "a", lit, concrete)
	}
	checkTotal(ev, map[string]interface{}{"a": v}, opText[op]+" on "+name)
	vCover("reached")
}

// H_C09_nested: the same shapes reached through a quantifier alias, a key
// binding, and inside connectives whose operands error.
func H_C09_nested() {
	op := vChoose(8)
	sc := vChoose(nShapes)
	v, name := shapeC09(sc)
	form := vChoose(6)
	var ev *Evaluator
	var d interface{}
	what := ""
	switch form {
	case 0:
		ev = mustCreate("any l as x { " + exprFor(op, "x", "q") + " }")
		d = map[string]interface{}{"l": []interface{}{v}}
		what = "quantifier alias"
	case 1:
		ev = mustCreate("all m as k, v { " + exprFor(op, "v", "q") + " }")
		d = map[string]interface{}{"m": map[string]interface{}{"e": v}}
		what = "map value binding"
	case 2:
		ev = mustCreate("not " + exprFor(op, "a", "q"))
		d = map[string]interface{}{"a": v}
		what = "under not"
	case 5:
		ev = mustCreate("(any a as k, v { " + exprFor(op, "v", "q") + " }) or (all a as _, w { " + exprFor(op, "w", "q") + " })")
		d = map[string]interface{}{"a": v}
		what = "the value itself iterated with a value binding"
	case 3:
		ev = mustCreate("not " + exprFor(op, "missing", "q"))
		d = map[string]interface{}{"a": v}
		what = "not over an absent top-level key"
	default:
		ev = mustCreate(exprFor(op, "a", "q") + " or not " + exprFor(op, "a.b.c", "q"))
		d = map[string]interface{}{"a": v}
		what = "or/not over a step into the value"
	}
	checkTotal(ev, d, what+": "+opText[op]+" on "+name)
	vCover("reached")
}

// H_C09_datum_root: odd values as the datum itself.
func H_C09_datum_root() {
	op := vChoose(8)
	v, name := shapeC09(vChoose(nShapes))
	ev := mustCreate(exprFor(op, "a", "q"))
	checkTotal(ev, v, "datum root "+name+": "+opText[op])
	vCover("reached")
}

var scalarShapes = []int{1, 2, 5, 6, 7, 8, 12, 27, 43, 0}

// H_C09_sequence: one evaluator used on two data whose selected values have
// different kinds, and one quantifier over elements of different kinds.
func H_C09_sequence() {
	op := vChoose(8)
	s1, s2 := vChoose(len(scalarShapes)), vChoose(len(scalarShapes))
	if vTier() == 0 {
		vAssume((s1+s2+op)%3 == vSeed()%3)
	}
	v1, n1 := shapeC09(scalarShapes[s1])
	v2, n2 := shapeC09(scalarShapes[s2])
	lit := []string{"1", "x"}[vChoose(2)]
	if vBool() {
		ev := mustCreate(exprFor(op, "a", "q"))
		if hasValue(op) {
			ev = createWithLit(op, "a", lit, true)
		}
		checkTotal(ev, map[string]interface{}{"a": v1}, "first call: "+opText[op]+" on "+n1)
		checkTotal(ev, map[string]interface{}{"a": v2}, "second call after "+n1+": "+opText[op]+" on "+n2)
	} else {
		ev := mustCreate("(any l as x { " + exprFor(op, "x", "1") + " }) or (all l as x { " + exprFor(op, "x", "1") + " })")
		checkTotal(ev, map[string]interface{}{"l": []interface{}{v1, v2}}, "quantifier over mixed kinds "+n1+","+n2+": "+opText[op])
		ev2 := mustCreate(exprFor(2, "l", lit))
		checkTotal(ev2, map[string]interface{}{"l": []interface{}{v1, v2}}, "in over mixed kinds "+n1+","+n2)
	}
	vCover("reached")
}
