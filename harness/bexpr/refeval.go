package bexpr

// refEval: an independent interpreter of the documented semantics over an
// explicit model tree of the datum. It never touches reflect or the code
// under test (strconv and regexp are environment on both sides). Outcome is
// true / false / error, or oUnspec on the corners the documentation does not
// settle (the harness assumes those away). DESIGN.md Appendix A.

import (
	"regexp"
	"strconv"
	"strings"

	"github.com/hashicorp/go-bexpr/grammar"
)

const oUnspec = 4

const (
	rvNil = iota
	rvBool
	rvInt  // any signed kind
	rvUint // any unsigned kind
	rvF32
	rvF64
	rvStr
	rvJNum // json.Number (text in s)
	rvPtr  // pointer: items[0] or nil pointer when len(items)==0
	rvList // slice or array
	rvMap  // string-keyed (keyNamed: named string key type)
	rvStruct
	rvBytes // []byte
	rvOther // chan, func, complex, ...
)

// Static element kinds of a list.
const (
	elIface    = iota
	elConcrete // element type is exactly the kind of the items (scalar)
	elPtr      // pointer to a scalar kind
	elOther    // struct, slice, map ... (no primitive comparison)
)

type rfield struct {
	goName, tag string
	exported    bool
	v           *rv
}

type rv struct {
	kind     int
	b        bool
	i        int64
	u        uint64
	f32      float32
	f64      float64
	s        string
	items    []*rv
	el       int // list element static kind
	elKind   int // for elConcrete/elPtr: the scalar kind (rvInt...)
	keys     []string
	vals     []*rv
	keyNamed bool
	fields   []rfield
}

type rbinding struct {
	name  string
	isKey bool
	key   *rv      // the key / index value
	path  []string // alias target
}

type renv struct {
	root     *rv
	unknown  *rv // nil: not configured
	bindings []rbinding
}

// resolution results
const (
	rFound = iota
	rAbsent
	rError
	rUnspec
)

func isCanonicalIndex(s string) bool {
	if s == "" {
		return false
	}
	if s == "0" {
		return true
	}
	if s[0] < '1' || s[0] > '9' {
		return false
	}
	for i := 1; i < len(s); i++ {
		if s[i] < '0' || s[i] > '9' {
			return false
		}
	}
	return len(s) < 10
}

// deref strips pointer levels as pointerstructure does before each step.
func stepDeref(v *rv) *rv {
	for v != nil && v.kind == rvPtr {
		if len(v.items) == 0 {
			return nil // nil pointer: invalid value
		}
		v = v.items[0]
	}
	return v
}

func (e *renv) resolve(path []string) (int, *rv) {
	for i := len(e.bindings) - 1; i >= 0 && len(path) > 0; i-- {
		b := e.bindings[i]
		if path[0] == b.name {
			if b.isKey {
				if len(path) > 1 {
					return rError, nil
				}
				return rFound, b.key
			}
			np := append([]string{}, b.path...)
			path = append(np, path[1:]...)
		}
	}
	if len(path) == 0 {
		return rFound, e.root
	}
	cur := e.root
	var parent *rv
	for i, part := range path {
		c := stepDeref(cur)
		if c == nil {
			return rError, nil
		}
		notFound := false
		switch c.kind {
		case rvMap:
			found := false
			for k, key := range c.keys {
				if key == part {
					parent, cur, found = c, c.vals[k], true
					break
				}
			}
			if !found {
				notFound = true
			}
		case rvList, rvBytes:
			if !isCanonicalIndex(part) {
				if _, err := strconv.ParseInt(part, 0, 64); err != nil && part != "" {
					return rError, nil
				}
				return rUnspec, nil
			}
			idx, _ := strconv.Atoi(part)
			if idx >= len(c.items) {
				return rError, nil
			}
			parent, cur = c, c.items[idx]
		case rvStruct:
			var hit *rv
			found, ignored := false, false
			done := false
			for _, f := range c.fields {
				if !f.exported {
					continue
				}
				if f.tag != "" {
					if f.tag == "-" {
						if f.goName == part {
							found, ignored = true, true
						}
						continue
					}
					if f.tag == part {
						hit, done = f.v, true
						break
					}
				} else if f.goName == part {
					hit, found = f.v, true
				}
			}
			switch {
			case done:
				parent, cur = c, hit
			case !found:
				notFound = true
			case ignored:
				return rError, nil
			default:
				parent, cur = c, hit
			}
		default:
			return rError, nil
		}
		if notFound {
			if e.unknown != nil {
				return rFound, e.unknown
			}
			// absent: a leaf key (selector of >= 2 parts) missing from a map that is
			// the value returned for the parent path (not behind a pointer)
			if len(path) >= 2 && i == len(path)-1 && c.kind == rvMap && cur != nil && cur.kind == rvMap {
				return rAbsent, nil
			}
			return rError, nil
		}
		_ = parent
	}
	return rFound, cur
}

// readAs reads the literal in scalar kind k. ok=false: the literal is invalid for k.
type litVal struct {
	b   bool
	i   int64
	u   uint64
	f32 float32
	f64 float64
	s   string
}

func readAs(k int, lit string) (litVal, error) {
	var v litVal
	var err error
	switch k {
	case rvBool:
		v.b, err = strconv.ParseBool(lit)
	case rvInt:
		v.i, err = strconv.ParseInt(lit, 0, 64)
	case rvUint:
		v.u, err = strconv.ParseUint(lit, 0, 64)
	case rvF32:
		var f float64
		f, err = strconv.ParseFloat(lit, 32)
		v.f32 = float32(f)
	case rvF64:
		v.f64, err = strconv.ParseFloat(lit, 64)
	default:
		v.s = lit
	}
	return v, err
}

func isScalar(k int) bool { return k >= rvBool && k <= rvStr }

func scalarEq(x *rv, v litVal) bool {
	switch x.kind {
	case rvBool:
		return x.b == v.b
	case rvInt:
		return x.i == v.i
	case rvUint:
		return x.u == v.u
	case rvF32:
		return x.f32 == v.f32
	case rvF64:
		return x.f64 == v.f64
	default:
		return x.s == v.s
	}
}

func bool2o(b bool) int {
	if b {
		return oTrue
	}
	return oFalse
}

func neg(o int) int {
	switch o {
	case oTrue:
		return oFalse
	case oFalse:
		return oTrue
	}
	return o
}

// derefAll follows every pointer level; nil when a nil pointer is met.
func derefAll(v *rv) *rv { return stepDeref(v) }

func positive(op grammar.MatchOperator, x *rv, lit string) int {
	// json.Number narrows to int64, else float64
	if x != nil && x.kind == rvJNum {
		if i, err := strconv.ParseInt(x.s, 10, 64); err == nil {
			x = &rv{kind: rvInt, i: i}
		} else if f, err := strconv.ParseFloat(x.s, 64); err == nil {
			x = &rv{kind: rvF64, f64: f}
		} else {
			return oError
		}
	}
	// one pointer level is removed
	if x != nil && x.kind == rvPtr {
		if len(x.items) == 0 {
			x = nil
		} else {
			x = x.items[0]
		}
	}
	if x != nil && x.kind == rvNil {
		x = nil
	}
	switch op {
	case grammar.MatchEqual:
		if x == nil || !isScalar(x.kind) {
			return oError
		}
		if x.kind == rvF32 && x.f32 != x.f32 || x.kind == rvF64 && x.f64 != x.f64 {
			return oUnspec
		}
		v, err := readAs(x.kind, lit)
		if err != nil {
			return oError
		}
		return bool2o(scalarEq(x, v))
	case grammar.MatchIn:
		if x == nil {
			return oError
		}
		switch x.kind {
		case rvStr:
			return bool2o(strings.Contains(x.s, lit))
		case rvMap:
			for _, k := range x.keys {
				if k == lit {
					return oTrue
				}
			}
			return oFalse
		case rvBytes:
			v, err := readAs(rvUint, lit)
			if err != nil {
				return oError
			}
			for _, it := range x.items {
				if it.u == v.u {
					return oTrue
				}
			}
			return oFalse
		case rvList:
			switch x.el {
			case elOther:
				return oError
			case elConcrete, elPtr:
				v, err := readAs(x.elKind, lit)
				if err != nil {
					return oError
				}
				for _, it := range x.items {
					d := derefAll(it)
					if d == nil {
						continue
					}
					if d.kind == rvF32 && d.f32 != d.f32 || d.kind == rvF64 && d.f64 != d.f64 {
						return oUnspec
					}
					if scalarEq(d, v) {
						return oTrue
					}
				}
				return oFalse
			default: // []interface{}
				for _, it := range x.items {
					if it == nil || it.kind == rvNil {
						continue
					}
					d := it
					k := it.kind
					if it.kind == rvPtr {
						d = derefAll(it)
						k = it.elKind
					}
					if it.kind == rvJNum {
						k = rvStr // json.Number inside a list is compared as the string type it is
						d = &rv{kind: rvStr, s: it.s}
					}
					if !isScalar(k) {
						return oError
					}
					v, err := readAs(k, lit)
					if err != nil {
						ne, isNum := err.(*strconv.NumError)
						if isNum && ne.Err == strconv.ErrSyntax {
							continue
						}
						return oError
					}
					if d == nil {
						continue
					}
					if d.kind == rvF32 && d.f32 != d.f32 || d.kind == rvF64 && d.f64 != d.f64 {
						return oUnspec
					}
					if scalarEq(d, v) {
						return oTrue
					}
				}
				return oFalse
			}
		}
		return oError
	case grammar.MatchIsEmpty:
		if x == nil {
			return oError
		}
		switch x.kind {
		case rvStr:
			return bool2o(len(x.s) == 0)
		case rvList, rvBytes:
			return bool2o(len(x.items) == 0)
		case rvMap:
			return bool2o(len(x.keys) == 0)
		}
		return oError
	case grammar.MatchMatches:
		if x == nil {
			return oError
		}
		var subject []byte
		switch x.kind {
		case rvStr:
			subject = []byte(x.s)
		case rvBytes:
			for _, it := range x.items {
				subject = append(subject, byte(it.u))
			}
		default:
			return oError
		}
		re, err := regexp.Compile(lit)
		if err != nil {
			return oError
		}
		return bool2o(re.Match(subject))
	}
	return oError
}

var refDisposition = map[grammar.MatchOperator]bool{
	grammar.MatchEqual: false, grammar.MatchNotEqual: true, grammar.MatchIn: false, grammar.MatchNotIn: true,
	grammar.MatchIsEmpty: true, grammar.MatchIsNotEmpty: false, grammar.MatchMatches: false, grammar.MatchNotMatches: true,
}

func (e *renv) eval(x grammar.Expression) int {
	switch n := x.(type) {
	case *grammar.UnaryExpression:
		return neg(e.eval(n.Operand))
	case *grammar.BinaryExpression:
		l := e.eval(n.Left)
		if n.Operator == grammar.BinaryOpAnd {
			if l == oFalse || l == oError || l == oUnspec {
				return l
			}
			return e.eval(n.Right)
		}
		if l == oTrue || l == oError || l == oUnspec {
			return l
		}
		return e.eval(n.Right)
	case *grammar.MatchExpression:
		r, v := e.resolve(n.Selector.Path)
		switch r {
		case rError:
			return oError
		case rUnspec:
			return oUnspec
		case rAbsent:
			return bool2o(refDisposition[n.Operator])
		}
		lit := ""
		if n.Value != nil {
			lit = n.Value.Raw
		}
		pos := n.Operator &^ 1
		o := positive(pos, v, lit)
		if n.Operator&1 == 1 {
			return neg(o)
		}
		return o
	case *grammar.CollectionExpression:
		r, v := e.resolve(n.Selector.Path)
		all := n.Op == grammar.CollectionOpAll
		switch r {
		case rError:
			return oError
		case rUnspec:
			return oUnspec
		case rAbsent:
			return bool2o(all)
		}
		if v == nil {
			return oError
		}
		b := n.NameBinding
		switch v.kind {
		case rvList, rvBytes:
			for i, _ := range v.items {
				if b.Mode == grammar.CollectionBindIndexAndValue && b.Index == b.Value {
					return oError
				}
				ep := append(append([]string{}, n.Selector.Path...), strconv.Itoa(i))
				saved := len(e.bindings)
				if b.Index != "" {
					e.bindings = append(e.bindings, rbinding{name: b.Index, isKey: true, key: &rv{kind: rvInt, i: int64(i)}})
				}
				if b.Default != "" {
					e.bindings = append(e.bindings, rbinding{name: b.Default, path: ep})
				}
				if b.Value != "" {
					e.bindings = append(e.bindings, rbinding{name: b.Value, path: ep})
				}
				o := e.eval(n.Inner)
				e.bindings = e.bindings[:saved]
				if o == oError || o == oUnspec {
					return o
				}
				if (o == oTrue) != all {
					return o
				}
			}
			return bool2o(all)
		case rvMap:
			if v.keyNamed {
				return oError
			}
			// keys are visited in sorted order
			order := make([]int, len(v.keys))
			for i := range order {
				order[i] = i
			}
			for i := 1; i < len(order); i++ {
				for j := i; j > 0 && v.keys[order[j]] < v.keys[order[j-1]]; j-- {
					order[j], order[j-1] = order[j-1], order[j]
				}
			}
			for _, k := range order {
				if b.Mode == grammar.CollectionBindIndexAndValue && b.Index == b.Value {
					return oError
				}
				key := &rv{kind: rvStr, s: v.keys[k]}
				ep := append(append([]string{}, n.Selector.Path...), v.keys[k])
				saved := len(e.bindings)
				if b.Default != "" {
					e.bindings = append(e.bindings, rbinding{name: b.Default, isKey: true, key: key})
				}
				if b.Index != "" {
					e.bindings = append(e.bindings, rbinding{name: b.Index, isKey: true, key: key})
				}
				if b.Value != "" {
					e.bindings = append(e.bindings, rbinding{name: b.Value, path: ep})
				}
				o := e.eval(n.Inner)
				e.bindings = e.bindings[:saved]
				if o == oError || o == oUnspec {
					return o
				}
				if (o == oTrue) != all {
					return o
				}
			}
			return bool2o(all)
		}
		return oError
	}
	return oError
}

func refEval(x grammar.Expression, root *rv, unknown *rv) int {
	e := &renv{root: root, unknown: unknown}
	return e.eval(x)
}
