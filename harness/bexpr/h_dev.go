package bexpr

func H_DEV_empty() { vCover("reached") }
func H_DEV_one() {
	ev := mustCreate("a == 1")
	evalO(ev, map[string]interface{}{"a": 1})
}
