package bexpr

import (
	"strconv"

	"github.com/hashicorp/go-bexpr/grammar"
)

func H_DEV_concrete() {
	ev, err := CreateEvaluator(`k == 12 and not m.a in s or "x" in "/l"`)
	vDebug(err)
	vAssert(err == nil, "parse ok")
	d := map[string]interface{}{"k": int64(12), "m": map[string]string{"a": "zz"}, "s": "abc", "l": []string{"x"}}
	r, err := ev.Evaluate(d)
	vAssert(err == nil, "eval ok")
	vAssert(r, "true")
	vCover("reached")
}

func H_DEV_symint() {
	x := vInt64()
	lit := vString(3)
	ev, err := CreateEvaluator("k == x")
	vAssume(err == nil)
	vAST(ev).(*grammar.MatchExpression).Value.Raw = lit
	got, gerr := ev.Evaluate(map[string]interface{}{"k": x})
	want, werr := strconv.ParseInt(lit, 0, 64)
	vAssert((gerr != nil) == (werr != nil), "error iff literal invalid for int64")
	vAssert(gerr != nil || got == (want == x), "true iff same value")
	vCover("reached")
}
