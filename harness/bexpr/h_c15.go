package bexpr

// C15 (public side): CreateEvaluator accepts exactly what grammar.Parse accepts
// and carries the same tree.

import (
	"strings"

	"github.com/hashicorp/go-bexpr/grammar"
)

var corpusC15b = []string{
	`a == 1`, `(((((foo == 3)))))`, `(((((((a == 1)))))))`, "a == \"x\ny\"", `not ((((not (foo in bar)))))`, `a == 1 or b == 2 and not c is empty`, `any a as x { x == 1 }`, `a ==`, `(a == 1`, `a == "/x"`, `"/x" == 1`, ``, ` `, `a == 1 `,
}

func dumpC15(e grammar.Expression) string {
	var sb strings.Builder
	e.ExpressionDump(&sb, " ", 0)
	return sb.String()
}

func H_C15_create() {
	s := corpusC15b[vChoose(len(corpusC15b))]
	if vTier() == 0 && len(s) > 6 && s[:7] == "(((((((" {
		return // thorough tier only
	}
	ast, perr := grammar.Parse("", []byte(s))
	ev, cerr := CreateEvaluator(s)
	vAssert((perr == nil) == (cerr == nil), s+": CreateEvaluator accepts exactly what grammar.Parse accepts")
	if perr == nil && cerr == nil {
		vAssert(dumpC15(ast.(grammar.Expression)) == dumpC15(vAST(ev)), s+": the evaluator carries the tree the parser built")
		vCover("accepted")
	} else {
		vCover("rejected")
	}
}
