package bexpr

// C02 — equality compares in the selected value's own type; bad literals are errors.
// Oracle: the literal read as the value's kind with the documented strconv
// arguments pinned (base 0, 64 bit; float bit size of the field).

import (
	"encoding/json"
	"strconv"
)

func litBound() int {
	if vTier() > 0 {
		return 4
	}
	return 3
}

// H_C02_coerce: the exported Coerce* functions against pinned strconv readings.
func H_C02_coerce() {
	lit := vString(litBound())
	switch vChoose(3) {
	case 0:
		got, gerr := CoerceInt64(lit)
		want, werr := strconv.ParseInt(lit, 0, 64)
		vAssert((gerr != nil) == (werr != nil), "CoerceInt64 error iff literal invalid")
		vAssert(gerr != nil || got.(int64) == want, "CoerceInt64 value")
		vCover("int64")
	case 1:
		got, gerr := CoerceUint64(lit)
		want, werr := strconv.ParseUint(lit, 0, 64)
		vAssert((gerr != nil) == (werr != nil), "CoerceUint64 error iff literal invalid")
		vAssert(gerr != nil || got.(uint64) == want, "CoerceUint64 value")
		vCover("uint64")
	case 2:
		got, gerr := CoerceBool(lit)
		want, werr := strconv.ParseBool(lit)
		vAssert((gerr != nil) == (werr != nil), "CoerceBool error iff literal invalid")
		vAssert(gerr != nil || got.(bool) == want, "CoerceBool value")
		vCover("bool")
	}
}

// intDatum builds {"k": x} for each signed kind / wrapper; returns x widened.
func intDatum(c int) (interface{}, int64, string) {
	switch c {
	case 0:
		x := vInt()
		return x, int64(x), "int"
	case 1:
		x := vInt8()
		return x, int64(x), "int8"
	case 2:
		x := vInt16()
		return x, int64(x), "int16"
	case 3:
		x := vInt32()
		return x, int64(x), "int32"
	case 4:
		x := vInt64()
		return x, x, "int64"
	case 5:
		x := vInt64()
		return nInt(x), x, "named int64"
	case 6:
		x := vInt64()
		return &x, x, "*int64"
	default:
		x := vInt16()
		var i interface{} = x // interface inside interface: still one dynamic value
		return i, int64(x), "interface{int16}"
	}
}

func uintDatum(c int) (interface{}, uint64, string) {
	switch c {
	case 0:
		x := vUint()
		return x, uint64(x), "uint"
	case 1:
		x := vUint8()
		return x, uint64(x), "uint8"
	case 2:
		x := vUint16()
		return x, uint64(x), "uint16"
	case 3:
		x := vUint32()
		return x, uint64(x), "uint32"
	case 4:
		x := vUint64()
		return x, x, "uint64"
	case 5:
		x := vUint8()
		return nUint8(x), uint64(x), "named uint8"
	default:
		x := vUint64()
		return &x, x, "*uint64"
	}
}

type sC02 struct {
	K int64 `bexpr:"k"`
	U uint16
	B bool
	S string
}

// H_C02_int_symlit: every signed kind/wrapper, field value over its full
// domain, every literal up to the byte bound.
func H_C02_int_symlit() {
	v, x, name := intDatum(vChoose(8))
	lit := vString(litBound())
	ev := mustCreate("k == 0")
	setLit(ev, lit)
	got, gerr := ev.Evaluate(map[string]interface{}{"k": v})
	want, werr := strconv.ParseInt(lit, 0, 64)
	vAssert((gerr != nil) == (werr != nil), name+": error iff literal invalid for int64")
	vAssert(gerr != nil || got == (want == x), name+": true iff same integer")
	vCover("reached")
}

func H_C02_uint_symlit() {
	v, x, name := uintDatum(vChoose(7))
	lit := vString(litBound())
	ev := mustCreate("k == 0")
	setLit(ev, lit)
	got, gerr := ev.Evaluate(map[string]interface{}{"k": v})
	want, werr := strconv.ParseUint(lit, 0, 64)
	vAssert((gerr != nil) == (werr != nil), name+": error iff literal invalid for uint64")
	vAssert(gerr != nil || got == (want == x), name+": true iff same integer")
	vCover("reached")
}

// Boundary spellings read natively; the field value stays fully symbolic.
var intCorpus = []string{
	"9223372036854775807", "9223372036854775808", "-9223372036854775808", "-9223372036854775809",
	"9007199254740993", "9007199254740992", "-9007199254740993", "18446744073709551615", "18446744073709551616",
	"0x7fffffffffffffff", "0x8000000000000000", "0xffffffffffffffff", "-0x8000000000000000", "0X1F", "0b101", "0B11", "0o17", "0O7", "017", "08",
	"1_000", "0x_ff", "1__0", "_1", "1_", "+5", "-0", "+-1", "", " 1", "1 ", "1e3", "1.0", "0x", "1.5", "4294967296", "255", "256", "-129", "128",
	"٣", "１", "true", "abc",
}

func H_C02_int_corpus() {
	v, x, name := intDatum(vChoose(8))
	lit := intCorpus[vChoose(len(intCorpus))]
	ev := mustCreate("k == 0")
	setLit(ev, lit)
	got, gerr := ev.Evaluate(map[string]interface{}{"k": v})
	want, werr := strconv.ParseInt(lit, 0, 64)
	vAssert((gerr != nil) == (werr != nil), name+" "+lit+": error iff literal invalid for int64")
	vAssert(gerr != nil || got == (want == x), name+" "+lit+": true iff same integer")
	vCover("reached")
}

func H_C02_uint_corpus() {
	v, x, name := uintDatum(vChoose(7))
	lit := intCorpus[vChoose(len(intCorpus))]
	ev := mustCreate("k == 0")
	setLit(ev, lit)
	got, gerr := ev.Evaluate(map[string]interface{}{"k": v})
	want, werr := strconv.ParseUint(lit, 0, 64)
	vAssert((gerr != nil) == (werr != nil), name+" "+lit+": error iff literal invalid for uint64")
	vAssert(gerr != nil || got == (want == x), name+" "+lit+": true iff same integer")
	vCover("reached")
}

// Boundary windows: a concrete digit prefix next to 2^63 / 2^64 / 2^53 followed
// by two symbolic digits, so the solver picks the spelling on either side of
// the overflow edge (a fully symbolic 19-digit run makes z3 time out on the
// 64-bit multiplication chain; measured, see DESIGN.md).
var digitPrefixes = []string{"92233720368547758", "-92233720368547758", "184467440737095516", "90071992547409", "0x7ffffffffffffff", "0xfffffffffffffff", "-0x80000000000000", "42949672"}

func H_C02_int_digits() {
	pre := digitPrefixes[vChoose(len(digitPrefixes))]
	ds := vStringN(2)
	vAssume(ds[0] >= '0' && ds[0] <= '9' && ds[1] >= '0' && ds[1] <= '9')
	lit := pre + ds
	ev := mustCreate("k == 0")
	setLit(ev, lit)
	if vBool() {
		x := vInt64()
		got, gerr := ev.Evaluate(map[string]interface{}{"k": x})
		want, werr := strconv.ParseInt(lit, 0, 64)
		vAssert((gerr != nil) == (werr != nil), pre+"dd int64: error iff literal invalid")
		vAssert(gerr != nil || got == (want == x), pre+"dd int64: true iff same integer")
		if werr == nil {
			vCover("int64-in-range")
		} else {
			vCover("int64-out-of-range")
		}
	} else {
		x := vUint64()
		got, gerr := ev.Evaluate(map[string]interface{}{"k": x})
		want, werr := strconv.ParseUint(lit, 0, 64)
		vAssert((gerr != nil) == (werr != nil), pre+"dd uint64: error iff literal invalid")
		vAssert(gerr != nil || got == (want == x), pre+"dd uint64: true iff same integer")
		if werr == nil {
			vCover("uint64-in-range")
		} else {
			vCover("uint64-out-of-range")
		}
	}
}

func H_C02_bool() {
	x := vBool()
	var v interface{} = x
	switch vChoose(3) {
	case 1:
		v = nBool(x)
	case 2:
		v = &x
	}
	lit := vString(litBound() + 2)
	ev := mustCreate("k == 0")
	setLit(ev, lit)
	got, gerr := ev.Evaluate(map[string]interface{}{"k": v})
	want, werr := strconv.ParseBool(lit)
	vAssert((gerr != nil) == (werr != nil), "bool: error iff literal invalid")
	vAssert(gerr != nil || got == (want == x), "bool: true iff same value")
	if werr == nil {
		vCover("valid-bool-literal")
	}
	vCover("reached")
}

func H_C02_string() {
	x := vString(2)
	lit := vString(2)
	var v interface{} = x
	switch vChoose(3) {
	case 1:
		v = nStr(x)
	case 2:
		v = &x
	}
	ev := mustCreate("k == 0")
	setLit(ev, lit)
	got, gerr := ev.Evaluate(map[string]interface{}{"k": v})
	vAssert(gerr == nil, "string: never an error")
	vAssert(got == (lit == x), "string: true iff byte-equal")
	vCover("reached")
}

var floatCorpus = []string{
	"0", "-0", "0.0", "1", "1.5", "-1.5", "16777217", "16777216", "9007199254740993", "1e400", "-1e400", "1e-400", "4.9e-324", "1.4e-45",
	"3.4028235e38", "3.4028236e38", "3.5e38", "0.1", "0.30000000000000004", "1.0000000596046448", "1.00000005960464477539062500001",
	"0x1p-2", "0x1.fffffep127", "010", "0x10", "0b101", "0o17", "1_0", "0x_1", "Inf", "-Inf", "+Inf", "infinity", "NaN", "nan", "1_0.5", "1e", "", " 1", "1,5", "abc", "0x", "1e5", ".5", "5.",
}

func H_C02_float64() {
	x := vFloat64()
	vAssume(x == x)
	var v interface{} = x
	switch vChoose(3) {
	case 1:
		v = nF64(x)
	case 2:
		v = &x
	}
	lit := floatCorpus[vChoose(len(floatCorpus))]
	ev := mustCreate("k == 0")
	setLit(ev, lit)
	got, gerr := ev.Evaluate(map[string]interface{}{"k": v})
	want, werr := strconv.ParseFloat(lit, 64)
	vAssert((gerr != nil) == (werr != nil), "float64 "+lit+": error iff literal invalid")
	if werr == nil && want == want {
		vAssert(got == (want == x), "float64 "+lit+": true iff same value")
	}
	vCover("reached")
}

func H_C02_float32() {
	x := vFloat32()
	vAssume(x == x)
	var v interface{} = x
	if vBool() {
		v = &x
	}
	lit := floatCorpus[vChoose(len(floatCorpus))]
	ev := mustCreate("k == 0")
	setLit(ev, lit)
	got, gerr := ev.Evaluate(map[string]interface{}{"k": v})
	want, werr := strconv.ParseFloat(lit, 32)
	vAssert((gerr != nil) == (werr != nil), "float32 "+lit+": error iff literal invalid")
	if werr == nil && want == want {
		vAssert(got == (float32(want) == x), "float32 "+lit+": true iff same value")
	}
	vCover("reached")
}

// Struct field (renamed by tag) and json.Number.
func H_C02_struct_field() {
	x := vInt64()
	u := vUint16()
	lit := vString(2)
	ev := mustCreate("k == 0")
	setLit(ev, lit)
	got, gerr := ev.Evaluate(sC02{K: x, U: u})
	want, werr := strconv.ParseInt(lit, 0, 64)
	vAssert((gerr != nil) == (werr != nil), "struct int64: error iff literal invalid")
	vAssert(gerr != nil || got == (want == x), "struct int64: true iff same integer")
	ev2 := mustCreate("U == 0")
	setLit(ev2, lit)
	got2, gerr2 := ev2.Evaluate(&sC02{K: x, U: u})
	want2, werr2 := strconv.ParseUint(lit, 0, 64)
	vAssert((gerr2 != nil) == (werr2 != nil), "struct uint16: error iff literal invalid")
	vAssert(gerr2 != nil || got2 == (want2 == uint64(u)), "struct uint16: true iff same integer")
	vCover("reached")
}

func H_C02_json_number_int() {
	js := vString(3)
	x, e := strconv.ParseInt(js, 10, 64)
	vAssume(e == nil)
	lit := vString(2)
	ev := mustCreate("k == 0")
	setLit(ev, lit)
	got, gerr := ev.Evaluate(map[string]interface{}{"k": json.Number(js)})
	want, werr := strconv.ParseInt(lit, 0, 64)
	vAssert((gerr != nil) == (werr != nil), "json.Number int: error iff literal invalid for int64")
	vAssert(gerr != nil || got == (want == x), "json.Number int: true iff same integer")
	vCover("reached")
}

// Equality against non-scalars is an error, never a silent false.
func H_C02_nonscalar() {
	var v interface{}
	name := ""
	switch vChoose(7) {
	case 0:
		v, name = nil, "nil"
	case 1:
		v, name = []int{int(vInt8())}, "slice"
	case 2:
		v, name = map[string]int{"a": 1}, "map"
	case 3:
		v, name = sC02{K: vInt64()}, "struct"
	case 4:
		v, name = (*int)(nil), "nil pointer"
	case 5:
		v, name = [1]string{vString(1)}, "array"
	case 6:
		v, name = &sC02{}, "pointer to struct"
	}
	lit := vString(1)
	neq := vBool()
	ev := mustCreate("k == 0")
	if neq {
		ev = mustCreate("k != 0")
	}
	setLit(ev, lit)
	o, _, _ := evalO(ev, map[string]interface{}{"k": v})
	vAssert(o == oError, name+": equality against a non-scalar is an error (got "+oName(o)+")")
	vCover("reached")
}

// H_C02_sequence: one evaluator, two data whose selected value has different
// kinds: each comparison is still made in that value's own type.
func H_C02_sequence() {
	lit := []string{"7", "1", "true", "7.5", "0x7", "x"}[vChoose(6)]
	mk := func(c int) (interface{}, func() (bool, bool)) { // value, oracle -> (invalid literal, equal)
		switch c {
		case 0:
			x := vInt8()
			return x, func() (bool, bool) { w, e := strconv.ParseInt(lit, 0, 64); return e != nil, w == int64(x) }
		case 1:
			x := vUint16()
			return x, func() (bool, bool) { w, e := strconv.ParseUint(lit, 0, 64); return e != nil, w == uint64(x) }
		case 2:
			x := vStringN(1)
			return x, func() (bool, bool) { return false, lit == x }
		case 3:
			x := vBool()
			return x, func() (bool, bool) { w, e := strconv.ParseBool(lit); return e != nil, w == x }
		default:
			x := vFloat64()
			vAssume(x == x)
			return x, func() (bool, bool) { w, e := strconv.ParseFloat(lit, 64); return e != nil, w == x }
		}
	}
	v1, o1 := mk(vChoose(5))
	v2, o2 := mk(vChoose(5))
	ev := mustCreate("k == 0")
	setLit(ev, lit)
	for i, c := range []struct {
		v interface{}
		o func() (bool, bool)
	}{{v1, o1}, {v2, o2}} {
		got, gerr := ev.Evaluate(map[string]interface{}{"k": c.v})
		bad, eq := c.o()
		which := []string{"first", "second"}[i]
		vAssert((gerr != nil) == bad, which+" call: error iff the literal is invalid for the value's own type")
		vAssert(gerr != nil || got == eq, which+" call: compared in the value's own type")
	}
	vCover("reached")
}

// H_C02_quoted: the literal as the parser delivers it. A quoted literal is
// read in the selected value's own type from the Go string it spells —
// escapes included — not from its source text.
var quotedC02 = []struct {
	src, val string
}{
	{`"a\tb"`, "a\tb"}, {`"caf\u00e9"`, "café"}, {`"C:\\dir"`, `C:\dir`}, {`"\x31\x30"`, "10"}, {`"\u0054"`, "T"},
	{"`a\\tb`", `a\tb`}, {`"\061"`, "1"}, {`"0\x78\x31\x30"`, "0x10"}, {`"-\x31"`, "-1"}, {`"1\x2e5"`, "1.5"}, {`"\164rue"`, "true"}, {`plain`, "plain"}, {`"é"`, "é"},
}

func H_C02_quoted() {
	q := quotedC02[vChoose(len(quotedC02))]
	ev, err := CreateEvaluator("k == " + q.src)
	vAssert(err == nil, "quoted literal is accepted: "+q.src)
	if err != nil {
		return
	}
	switch vChoose(5) {
	case 0: // string field: equal iff byte-equal to the spelled string
		x := q.val
		if vBool() {
			x = q.src // the source text itself is a different string (unless unquoted and bare)
		}
		got, gerr := ev.Evaluate(map[string]interface{}{"k": x})
		vAssert(gerr == nil && got == (x == q.val), "string field against "+q.src)
	case 1:
		x := vInt16()
		want, werr := strconv.ParseInt(q.val, 0, 64)
		got, gerr := ev.Evaluate(map[string]interface{}{"k": x})
		vAssert((gerr != nil) == (werr != nil), "int16 field: error iff the spelled string is no integer: "+q.src)
		vAssert(gerr != nil || got == (int64(x) == want), "int16 field against "+q.src)
	case 2:
		x := vBool()
		want, werr := strconv.ParseBool(q.val)
		got, gerr := ev.Evaluate(map[string]interface{}{"k": x})
		vAssert((gerr != nil) == (werr != nil), "bool field: error iff the spelled string is no bool: "+q.src)
		vAssert(gerr != nil || got == (x == want), "bool field against "+q.src)
	case 3:
		x := vFloat64()
		want, werr := strconv.ParseFloat(q.val, 64)
		got, gerr := ev.Evaluate(map[string]interface{}{"k": x})
		vAssert((gerr != nil) == (werr != nil), "float64 field: error iff the spelled string is no float: "+q.src)
		vAssert(gerr != nil || got == (x == want), "float64 field against "+q.src)
	default:
		x := vUint8()
		want, werr := strconv.ParseUint(q.val, 0, 64)
		got, gerr := ev.Evaluate(map[string]interface{}{"k": x})
		vAssert((gerr != nil) == (werr != nil), "uint8 field: error iff the spelled string is no unsigned integer: "+q.src)
		vAssert(gerr != nil || got == (uint64(x) == want), "uint8 field against "+q.src)
	}
	vCover("reached")
}
