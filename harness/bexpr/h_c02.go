package bexpr

import "strconv"

// H_C02_coerce_int64: CoerceInt64 agrees with the pinned strconv reading for every literal of <= 3 bytes.
func H_C02_coerce_int64() {
	lit := vString(3)
	got, gerr := CoerceInt64(lit)
	want, werr := strconv.ParseInt(lit, 0, 64)
	vAssert((gerr != nil) == (werr != nil), "error iff literal invalid for int64")
	if gerr == nil {
		vAssert(got.(int64) == want, "same value")
	}
	vCover("reached")
}
