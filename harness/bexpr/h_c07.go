package bexpr

// C07 — dotted, bracket-indexed and JSON-Pointer spellings of a path are interchangeable.

import "github.com/hashicorp/go-bexpr/grammar"

// ptrEscape renders a part for the JSON-Pointer spelling (~0, ~1).
func ptrEscape(s string) string {
	out := ""
	for i := 0; i < len(s); i++ {
		switch s[i] {
		case '~':
			out += "~0"
		case '/':
			out += "~1"
		default:
			out += s[i : i+1]
		}
	}
	return out
}

func isPtrByte(b byte) bool {
	return b >= 'a' && b <= 'z' || b >= 'A' && b <= 'Z' || b >= '0' && b <= '9' || b == '-' || b == '_' || b == '.' || b == '~' || b == ':' || b == '|' || b == '/'
}

func isIdentTail(b byte) bool {
	return b >= 'a' && b <= 'z' || b >= 'A' && b <= 'Z' || b >= '0' && b <= '9' || b == '_'
}

func selectorOf(e grammar.Expression) grammar.Selector {
	switch n := e.(type) {
	case *grammar.MatchExpression:
		return n.Selector
	case *grammar.CollectionExpression:
		return n.Selector
	}
	vFail("no selector")
	return grammar.Selector{}
}

func samePath(a []string, b []string) bool {
	if len(a) != len(b) {
		return false
	}
	for i := range a {
		if a[i] != b[i] {
			return false
		}
	}
	return true
}

// H_C07_bracket_pointer: a part with arbitrary pointer-expressible bytes
// (incl. '/', '~', '.') spelled in brackets, in backticks and as a JSON Pointer.
func H_C07_bracket_pointer() {
	p1 := vString(2)
	for i := 0; i < len(p1); i++ {
		vAssume(isPtrByte(p1[i]))
	}
	vAssume(len(p1) > 0)
	k := vString(2) // a key of the datum; the solver decides whether it equals the part
	v := vInt8()
	d := map[string]interface{}{"a": map[string]interface{}{k: v, "other": int8(5)}}
	want := []string{"a", p1}
	spell := []string{
		`a["` + p1 + `"]`,
		"a[`" + p1 + "`]",
		`"/a/` + ptrEscape(p1) + `"`,
		`a[ "` + p1 + `" ]`,
	}
	pos := vChoose(3)
	var outs [4]int
	for i, sp := range spell {
		var expr string
		switch pos {
		case 0:
			expr = sp + " == 1"
		case 1:
			expr = "1 in " + sp
		default:
			expr = "any " + sp + " as x { x == 1 }"
		}
		ev, err := CreateEvaluator(expr)
		vAssert(err == nil, "spelling is accepted: "+[]string{"bracket", "backtick", "pointer", "spaced bracket"}[i])
		if err != nil {
			return
		}
		vAssert(samePath(selectorOf(vAST(ev)).Path, want), "spelling yields the same path, byte for byte: "+[]string{"bracket", "backtick", "pointer", "spaced bracket"}[i])
		outs[i], _, _ = evalO(ev, d)
	}
	vAssert(outs[0] == outs[1] && outs[0] == outs[2] && outs[0] == outs[3], "all spellings give one outcome")
	if k == p1 {
		vCover("key present")
	} else {
		vCover("key absent")
	}
}

// H_C07_dotted: identifier-shaped and numeric parts: dotted vs bracket vs pointer, three parts, mixed forms.
func H_C07_dotted() {
	p1 := vStringN(1) + vString(1)
	vAssume(p1[0] >= 'a' && p1[0] <= 'z' || p1[0] >= 'A' && p1[0] <= 'Z')
	if len(p1) > 1 {
		vAssume(isIdentTail(p1[1]))
	}
	idx := []string{"0", "1", "7", "00", "007", "010"}[vChoose(6)]
	k := vStringN(1) + vString(1)
	// the numeric part indexes a list, or is the key of a map (where "7" and "007" are different keys)
	var inner interface{} = []interface{}{vInt8(), vInt8()}
	if vBool() {
		inner = map[string]interface{}{"0": vInt8(), "00": vInt8(), "7": vInt8(), "007": vInt8(), "010": vInt8(), "10": vInt8(), "8": vInt8()}
	}
	d := map[string]interface{}{"a": map[string]interface{}{k: inner, "zz": []interface{}{int8(3)}}}
	want := []string{"a", p1, idx}
	spell := []string{
		"a." + p1 + "." + idx,
		`a["` + p1 + `"]["` + idx + `"]`,
		`"/a/` + p1 + `/` + idx + `"`,
		"a." + p1 + `["` + idx + `"]`,
		`a["` + p1 + `"].` + idx,
	}
	inBody := vBool()
	var first int
	for i, sp := range spell {
		expr := sp + " != 1"
		if inBody {
			// the same path reached through an alias inside a quantifier body
			rest := sp[1:] // drop the leading `a`
			if sp[0] == '"' {
				rest = ""
			}
			if rest == "" {
				expr = `any a as k, v { "/v/` + idx + `" != 1 }`
				d2 := map[string]interface{}{"a": d["a"]}
				_ = d2
				continue
			}
			expr = "all w as x { x" + rest + " != 1 }"
		}
		ev, err := CreateEvaluator(expr)
		vAssert(err == nil, "spelling is accepted: "+expr[:1])
		if err != nil {
			return
		}
		dd := interface{}(d)
		if inBody {
			dd = map[string]interface{}{"w": []interface{}{d["a"]}}
		} else {
			vAssert(samePath(selectorOf(vAST(ev)).Path, want), "same path for every spelling")
		}
		o, _, _ := evalO(ev, dd)
		if i == 0 {
			first = o
		} else {
			vAssert(o == first, "all spellings give one outcome (dotted / bracket / pointer / mixed)")
		}
	}
	vCover("reached")
}

// H_C07_collection: the quantified collection spelled three ways, over a map
// whose key may contain '/', '~' or '.', under every binding mode: the
// element paths built from the collection's path and the key must not depend
// on how the collection was spelled.
func H_C07_collection() {
	k := vString(2)
	for i := 0; i < len(k); i++ {
		vAssume(isPtrByte(k[i]))
	}
	k2 := "x/y~z"
	d := map[string]interface{}{"a": map[string]interface{}{"m": map[string]interface{}{k: vInt8(), k2: vInt8()}}}
	if vBool() {
		d = map[string]interface{}{"a": map[string]interface{}{"m": map[string]int8{k: vInt8(), k2: vInt8()}}}
	}
	coll := []string{`a.m`, `a["m"]`, `"/a/m"`, "a[`m`]"}
	bind := []string{"as k, v { v == 1 }", "as _, v { v == 1 }", "as k { k == \"x/y~z\" }", "as k, v { v == 1 and k != \"zz\" }", "as k, _ { k matches \"^x\" }"}[vChoose(5)]
	q := []string{"any ", "all "}[vChoose(2)]
	var first int
	for i, c := range coll {
		o, _, _ := evalO(mustCreate(q+c+" "+bind), d)
		if i == 0 {
			first = o
		} else {
			vAssert(o == first, "the spelling of the quantified collection does not change the outcome: "+c)
		}
	}
	// and the value binding really reaches the element: compare with the direct selector
	if k == "b" {
		direct, _, _ := evalO(mustCreate(`a.m.b == 1 or a.m["x/y~z"] == 1`), d)
		viaAny, _, _ := evalO(mustCreate(`any "/a/m" as _, v { v == 1 }`), d)
		vAssert(direct == viaAny, "value binding over a pointer-spelled collection reaches the elements")
		vCover("direct")
	}
	vCover("reached")
}

// H_C07_binding: inside the braces the binding shadows a same-named top-level
// key in every spelling of the selector that goes through it.
func H_C07_binding() {
	v, w := vInt8(), vInt8()
	d := map[string]interface{}{"l": []interface{}{map[string]interface{}{"k": v}}, "n": []interface{}{v}, "p": map[string]interface{}{"k": w}, "q": w}
	q := []string{"any ", "all "}[vChoose(2)]
	var forms []string
	if vBool() {
		forms = []string{q + `l as p { p.k == 1 }`, q + `l as p { p["k"] == 1 }`, q + `l as p { "/p/k" == 1 }`, q + "l as _, p { p[`k`] == 1 }", q + `"/l" as p { "/p/k" == 1 }`}
	} else {
		forms = []string{q + `n as q { q == 1 }`, q + `n as q { "/q" == 1 }`, q + `n as _, q { "/q" == 1 }`, q + `"/n" as q { q == 1 }`}
	}
	var first int
	for i, f := range forms {
		o, _, _ := evalO(mustCreate(f), d)
		if i == 0 {
			first = o
			vAssert(o != oError && (o == oTrue) == (v == 1), "the binding, not the same-named top-level key, is what the body sees: "+f)
		} else {
			vAssert(o == first, "every spelling of a selector through the binding gives one outcome: "+f)
		}
	}
	vCover("reached")
}

// H_C07_exact: parts match keys and field names exactly (case, no trimming).
type sC07 struct {
	Name  string
	name2 string
	Tag   string `bexpr:"tag"`
}

func H_C07_exact() {
	part := vString(3)
	v := vInt8()
	m := map[string]interface{}{"Key": v}
	ev := mustCreate("m.x == 1")
	theMatch(ev).Selector.Path = []string{"m", part}
	o, _, _ := evalO(ev, map[string]interface{}{"m": m})
	ref, _, _ := evalO(mustCreate("m.Key == 1"), map[string]interface{}{"m": m})
	if part == "Key" {
		vAssert(o == ref, "the exact key resolves")
		vCover("exact")
	} else {
		vAssert(o == oFalse, "any other spelling (case, spaces, prefix) is an absent key: == is false, not an error")
		vCover("other")
	}
	// struct fields
	ev2 := mustCreate("x == \"n\"")
	theMatch(ev2).Selector.Path = []string{part}
	o2, _, _ := evalO(ev2, sC07{Name: "n", Tag: "n"})
	if part == "tag" {
		vAssert(o2 == oTrue, "exact tag name resolves")
	} else if part != "Nam" && part != "Tag" && len(part) < 4 {
		vAssert(o2 == oError, "inexact field name does not resolve")
	}
}

// H_C07_within_expression: replacing one spelling by another anywhere in an
// expression that mentions several paths never changes the outcome.
func H_C07_within_expression() {
	d := map[string]interface{}{"a": map[string]interface{}{"b.c": vInt8(), "b": map[string]interface{}{"c": vInt8()}, "b/c": vInt8()}}
	left := []string{`a["b.c"] == 1`, "a[`b.c`] == 1", `"/a/b.c" == 1`}
	right := []string{`a.b.c == 2`, `a["b"]["c"] == 2`, `"/a/b/c" == 2`, `a.b["c"] == 2`}
	third := []string{`a["b/c"] != 3`, `"/a/b~1c" != 3`, `a.b/c == 9 or a["b/c"] != 3`}
	conn := []string{" and ", " or "}[vChoose(2)]
	base, _, _ := evalO(mustCreate(left[0]+conn+right[0]+conn+third[0]), d)
	e := left[vChoose(3)] + conn + right[vChoose(4)] + conn + third[vChoose(2)]
	o, _, _ := evalO(mustCreate(e), d)
	vAssert(o == base, "replacing spellings inside a multi-path expression keeps the outcome: "+e)
	// and each conjunct keeps its own meaning
	o1, _, _ := evalO(mustCreate(left[0]), d)
	o2, _, _ := evalO(mustCreate(right[0]), d)
	ob, _, _ := evalO(mustCreate(left[0]+" and "+right[0]), d)
	vAssert(ob == tblAnd(o1, o2), "paths that render alike stay distinct")
	vCover("reached")
}
