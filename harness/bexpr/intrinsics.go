package bexpr

// Harness intrinsics. In the symbolic run these bodyless declarations are
// intercepted by the executor; the native twin (intrinsics_native.go, used by
// replay) gives them bodies that read the solver's model.

import "github.com/hashicorp/go-bexpr/grammar"

func vBool() bool
func vInt() int
func vInt8() int8
func vInt16() int16
func vInt32() int32
func vInt64() int64
func vUint() uint
func vUint8() uint8
func vUint16() uint16
func vUint32() uint32
func vUint64() uint64
func vFloat32() float32
func vFloat64() float64
func vByte() byte
func vString(max int) string
func vStringN(n int) string
func vBytes(max int) []byte
func vBytesN(n int) []byte
func vChoose(n int) int
func vAssume(ok bool)
func vAssert(ok bool, label string)
func vCover(label string)
func vTier() int
func vSeed() int
func vAST(ev *Evaluator) grammar.Expression
func vCalls(suffix string) int
func vMapOrder(mode int)
func vMonitorStart(roots ...interface{})
func vMonitorStop() []string
func vSyncEvents() int
func vNote(s string)
func vFail(label string)
func vDebug(args ...interface{})
func vConcurrent(f func(), n int)
