package bexpr

// C04 — negated operators are exact complements; contains is in with operands flipped.

import "github.com/hashicorp/go-bexpr/grammar"

// H_C04_disposition: the absent-key table for every operator value (all 2^64).
func H_C04_disposition() {
	op := vInt()
	o := grammar.MatchOperator(op)
	if op >= 0 && op < 8 {
		pos := grammar.MatchOperator(op &^ 1)
		neg := grammar.MatchOperator(op | 1)
		vAssert(pos.NotPresentDisposition() != neg.NotPresentDisposition(), "negated operator has the complementary absent-key disposition")
		vCover("pair")
	} else {
		vAssert(!o.NotPresentDisposition(), "unknown operator: disposition false")
		vCover("outside")
	}
	want := [8]bool{false, true, false, true, true, false, false, true}
	if op >= 0 && op < 8 {
		vAssert(o.NotPresentDisposition() == want[op], "documented table")
	}
}

// placeC04 puts value v where selector sel finds it (or leaves it absent).
func placeC04(form int, v interface{}) (interface{}, string, string) {
	switch form {
	case 0:
		return map[string]interface{}{"a": v}, "a", "direct"
	case 1:
		return map[string]interface{}{"m": map[string]interface{}{"a": v}}, "m.a", "nested map"
	case 2:
		return map[string]interface{}{"m": map[string]interface{}{"other": v}}, "m.a", "absent map key"
	case 3:
		return map[string]interface{}{"other": v}, "a", "absent top-level key"
	default:
		return map[string]interface{}{"l": []interface{}{v}}, "l.0", "list element"
	}
}

// H_C04_pairs: S op L and S nop L on one symbolic datum.
func H_C04_pairs() {
	pair := vChoose(4)
	v, name := shapeC09(vChoose(nShapes))
	d, sel, where := placeC04(vChoose(5), v)
	pos := mustCreate(exprFor(2*pair, sel, "x"))
	neg := mustCreate(exprFor(2*pair+1, sel, "x"))
	if hasValue(2 * pair) {
		lit, concrete := litC09(2*pair, name)
		pos = createWithLit(2*pair, sel, lit, concrete)
		neg = createWithLit(2*pair+1, sel, lit, concrete)
	}
	o1, r1, e1 := evalO(pos, d)
	o2, r2, e2 := evalO(neg, d)
	vAssume(o1 != oPanic && o2 != oPanic)
	what := opText[2*pair] + " vs " + opText[2*pair+1] + " on " + name + " (" + where + ")"
	vAssert((e1 == nil) == (e2 == nil), what+": error exactly when the positive form errors")
	vAssert(e1 != nil || r2 == !r1, what+": negation of the positive form")
	vCover("reached")
}

// H_C04_contains: `S contains v`, `v in S`, and the not(...) forms agree.
func H_C04_contains() {
	v, name := shapeC09(vChoose(nShapes))
	d, sel, where := placeC04(vChoose(5), v)
	lit, concrete := litC09(2, name)
	x := "x"
	if concrete {
		x = `"` + lit + `"`
	}
	forms := []string{
		sel + " contains " + x, x + " in " + sel, "not (" + sel + " not contains " + x + ")", "not (" + x + " not in " + sel + ")",
	}
	var o [4]int
	for i, f := range forms {
		ev := mustCreate(f)
		if !concrete {
			setLitDeep(ev, lit)
		}
		o[i], _, _ = evalO(ev, d)
		vAssume(o[i] != oPanic)
	}
	what := "contains/in on " + name + " (" + where + ")"
	vAssert(o[0] == o[1], what+": S contains v == v in S")
	vAssert(o[0] == o[2], what+": == not (S not contains v)")
	vAssert(o[0] == o[3], what+": == not (v not in S)")
	vCover("reached")
}

// Literal spellings as the parser reads them (the literal goes through the
// real parser here, not through setLit).
var litSpellings = []string{
	"x", "foo.bar", `"x y"`, "`raw`", "12", "-1.5", `"/etc"`, `"/a/b"`, `""`, `"/"`, `"a/b"`, `"/a~1b"`, `"\t"`, "`/etc`", "0", `"in"`, `"/x.y/z"`, "foo[\"k\"]",
}

// H_C04_spellings: `S contains L` and `L in S` (and the negated forms) are the
// same match for every literal spelling, and evaluate alike.
func H_C04_spellings() {
	l := litSpellings[vChoose(len(litSpellings))]
	neg := vBool()
	e1, e2 := "s contains "+l, l+" in s"
	if neg {
		e1, e2 = "s not contains "+l, l+" not in s"
	}
	a, b := theMatchDeep(mustCreate(e1)), theMatchDeep(mustCreate(e2))
	vAssert(a.Operator == b.Operator, l+": same operator")
	vAssert(a.Value != nil && b.Value != nil && a.Value.Raw == b.Value.Raw, l+": same literal text")
	vAssert(len(a.Selector.Path) == 1 && len(b.Selector.Path) == 1 && a.Selector.Path[0] == b.Selector.Path[0], l+": same selector")
	d := map[string]interface{}{"s": vString(3)}
	o1, _, _ := evalO(mustCreate(e1), d)
	o2, _, _ := evalO(mustCreate(e2), d)
	vAssert(o1 == o2, l+": same outcome")
	// eq / neq with the same spelling: complement
	p1, _, _ := evalO(mustCreate("s == "+l), d)
	p2, _, _ := evalO(mustCreate("s != "+l), d)
	vAssert((p1 == oError) == (p2 == oError) && (p1 == oError || p1 != p2), l+": == and != are complements")
	vCover("reached")
}

// theMatchDeep finds the single match expression below optional not-nodes.
func theMatchDeep(ev *Evaluator) *grammar.MatchExpression {
	e := vAST(ev)
	for {
		switch n := e.(type) {
		case *grammar.MatchExpression:
			return n
		case *grammar.UnaryExpression:
			e = n.Operand
		default:
			vFail("expected not* match")
			return nil
		}
	}
}

func setLitDeep(ev *Evaluator, lit string) {
	theMatchDeep(ev).Value.Raw = lit
}
