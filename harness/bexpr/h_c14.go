package bexpr

// C14 — results do not depend on Go's map iteration order. The executor draws
// a fresh permutation at every MapKeys / range over a map while vMapOrder is
// on; each evaluation below therefore ranges over all orders, and the solver
// over all element values.

func nC14() int {
	if vTier() > 0 {
		return 4
	}
	return 3
}

func mapC14() map[string]interface{} {
	m := map[string]interface{}{}
	keys := []string{"a", "b", "c", "d"}
	n := 2 + vChoose(nC14()-1)
	if n == 2 && vBool() {
		keys = []string{"7", "07", "0", "00"} // keys that tie under a numeric comparison
	}
	for _, k := range keys[:n] {
		m[k] = elemC06()
	}
	return m
}

func H_C14_quantifier() {
	m := mapC14()
	d := map[string]interface{}{"m": m}
	if len(m) == 2 && vBool() { // the same entries under an interface key type (YAML-style data)
		im := map[interface{}]interface{}{}
		for k, v := range m {
			im[k] = v
		}
		d = map[string]interface{}{"m": im}
	}
	var expr string
	switch vChoose(9) {
	case 6: // key-only bindings: one key decisive, the others reach an erroring clause
		expr = "any m as k { k == \"b\" or zz == 1 }"
	case 7:
		expr = "all m as k, _ { k != \"a\" and zz == 1 }"
	case 8:
		expr = "any m as k { k == \"07\" or k matches \"(\" }"
	case 0:
		expr = "any m as k, v { v == 1 }"
	case 1:
		expr = "all m as _, v { v != 1 }"
	case 2:
		expr = "any m as k { k == \"b\" }"
	case 3:
		expr = "all m as k, v { k != \"a\" or v == 1 }"
	case 5:
		expr = "any mm as g, members { any members as name, val { val == 1 } }"
		d = map[string]interface{}{"mm": map[string]interface{}{"g1": m, "g2": map[string]interface{}{"z": elemC06()}}}
	default:
		expr = "any m as _, v { 1 in v }"
	}
	ev := mustCreate(expr)
	vMapOrder(1)
	o1, _, _ := evalO(ev, d)
	o2, _, _ := evalO(ev, d)
	vMapOrder(0)
	vAssume(o1 != oPanic && o2 != oPanic)
	vAssert(o1 == o2, expr+": two evaluations of one (expression, datum) agree")
	vCover("reached")
}

type sC14 struct{ X interface{} }

func H_C14_filter() {
	n := 2 + vChoose(nC14()-1)
	in := map[string]sC14{}
	keys := []string{"a", "b", "c", "d"}
	for _, k := range keys[:n] {
		in[k] = sC14{X: elemC06()}
	}
	f, err := CreateFilter("X == 1")
	vAssume(err == nil)
	vMapOrder(1)
	r1, e1 := f.Execute(in)
	r2, e2 := f.Execute(in)
	vMapOrder(0)
	vAssert((e1 == nil) == (e2 == nil), "filter over a map: same error-or-not on repetition")
	if e1 == nil && e2 == nil {
		m1, m2 := r1.(map[string]sC14), r2.(map[string]sC14)
		same := len(m1) == len(m2)
		for _, k := range keys[:n] {
			_, p1 := m1[k]
			_, p2 := m2[k]
			if p1 != p2 {
				same = false
			}
		}
		vAssert(same, "filter over a map: same keys kept on repetition")
	} else {
		vAssert(r1 == nil || e1 == nil, "nil result with an error")
	}
	vCover("reached")
}

// H_C14_lookup: selectors into maps and `in` on maps do not depend on order either.
func H_C14_lookup() {
	m := mapC14()
	d := map[string]interface{}{"m": m}
	var expr string
	switch vChoose(5) {
	case 0:
		expr = "m.b == 1"
	case 1:
		expr = "\"c\" in m"
	case 3, 4: // membership in an interface-keyed map whose other keys cannot be compared with the literal
		d = map[string]interface{}{"m": map[interface{}]interface{}{"c": 1, [2]int{1, 2}: 2, 5: 3, true: 4}, "l": []interface{}{map[interface{}]int{"c": 1, [1]string{"c"}: 2}}}
		expr = []string{"\"c\" in m", "5 in m", "m contains zz", "any l as e { c in e }"}[vChoose(4)]
	default:
		expr = "m.zz != 1"
	}
	ev := mustCreate(expr)
	vMapOrder(2)
	o1, _, _ := evalO(ev, d)
	o2, _, _ := evalO(ev, d)
	vMapOrder(0)
	vAssert(o1 == o2, expr+": two evaluations agree")
	vCover("reached")
}
