package grammar

func H_DEV_parse3() {
	b := vBytes(3)
	v, err := Parse("", b)
	vAssert((v == nil) != (err == nil) || (v != nil && err != nil), "value xor error (or both)")
	vCover("reached")
}
func H_DEV_parse4() {
	b := vBytesN(4)
	Parse("", b)
	vCover("reached")
}
