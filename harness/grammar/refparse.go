package grammar

// refParse: an independent recogniser / AST builder for the bexpr language,
// hand-written from the README and the rule text of the grammar as an
// ordered-choice (PEG) recursive descent with the explicit error productions.
// It shares no code with the generated engine or its rule table (strconv and
// unicode are environment on both sides).

import (
	"strconv"
	"strings"
	"unicode"
	"unicode/utf8"
)

type refP struct {
	in       []byte
	pos      int
	far      int  // furthest offset whose rune has been looked at
	rejected bool // a recorded error: sticky, never undone by backtracking
}

func (p *refP) adv(w int) {
	p.pos += w
	if p.pos > p.far {
		p.far = p.pos
	}
}

func (p *refP) eof() bool { return p.pos >= len(p.in) }

// lit matches an ASCII literal.
func (p *refP) lit(s string) bool {
	start := p.pos
	for i := 0; i < len(s); i++ {
		if p.eof() || p.in[p.pos] != s[i] {
			p.pos = start
			return false
		}
		p.adv(1)
	}
	return true
}

func isWS(b byte) bool { return b == ' ' || b == '\t' || b == '\r' || b == '\n' }

// ws matches one or more whitespace bytes.
func (p *refP) ws() bool {
	if p.eof() || !isWS(p.in[p.pos]) {
		return false
	}
	for !p.eof() && isWS(p.in[p.pos]) {
		p.adv(1)
	}
	return true
}

func (p *refP) optWS() { p.ws() }

func isLetter(b byte) bool { return b >= 'a' && b <= 'z' || b >= 'A' && b <= 'Z' }
func isDigit(b byte) bool  { return b >= '0' && b <= '9' }

func (p *refP) ident() (string, bool) {
	if p.eof() || !isLetter(p.in[p.pos]) {
		return "", false
	}
	start := p.pos
	p.adv(1)
	for !p.eof() {
		b := p.in[p.pos]
		if isLetter(b) || isDigit(b) || b == '_' || b == '/' {
			p.adv(1)
		} else {
			break
		}
	}
	return string(p.in[start:p.pos]), true
}

// anyRuneExcept consumes runes until the byte stop (exclusive) or EOF.
func (p *refP) runesUntil(stop byte) {
	for !p.eof() && p.in[p.pos] != stop {
		_, w := utf8.DecodeRune(p.in[p.pos:])
		p.adv(w)
	}
}

// stringLiteral: ('`' raw* '`' / '"' dbl* '"') unquoted; or the unterminated error production.
func (p *refP) stringLiteral() (string, bool) {
	start := p.pos
	if p.eof() || (p.in[p.pos] != '`' && p.in[p.pos] != '"') {
		return "", false
	}
	q := p.in[p.pos]
	p.adv(1)
	p.runesUntil(q)
	if !p.eof() { // closing quote
		p.adv(1)
		s, err := strconv.Unquote(string(p.in[start:p.pos]))
		if err != nil {
			p.rejected = true // action error: recorded, the match goes on with the value it returned
		}
		return s, true
	}
	// second alternative: opening quote, content, EOF => "Unterminated string literal"
	p.rejected = true
	p.pos = start
	return "", false
}

// indexExpression: "[" _? string _? "]" with the two error productions.
func (p *refP) indexExpression() (string, bool) {
	start := p.pos
	if !p.lit("[") {
		return "", false
	}
	p.optWS()
	s, ok := p.stringLiteral()
	if !ok {
		p.rejected = true // "Invalid index"
		p.pos = start
		return "", false
	}
	p.optWS()
	if !p.lit("]") {
		p.rejected = true // "Unclosed index expression"
		p.pos = start
		return "", false
	}
	return s, true
}

func (p *refP) selectorOrIndex() (string, bool) {
	start := p.pos
	if p.lit(".") {
		if id, ok := p.ident(); ok {
			return id, true
		}
		p.pos = start
	}
	if s, ok := p.indexExpression(); ok {
		return s, true
	}
	if p.lit(".") {
		ds := p.pos
		for !p.eof() && isDigit(p.in[p.pos]) {
			p.adv(1)
		}
		if p.pos > ds {
			return string(p.in[ds:p.pos]), true
		}
		p.pos = start
	}
	return "", false
}

func isPtrRune(r rune) bool {
	switch r {
	case '-', '_', '.', '~', ':', '|':
		return true
	}
	return unicode.Is(unicode.L, r) || unicode.Is(unicode.N, r)
}

func (p *refP) selector() (Selector, bool) {
	start := p.pos
	if id, ok := p.ident(); ok {
		sel := Selector{Type: SelectorTypeBexpr, Path: []string{id}}
		for {
			part, ok := p.selectorOrIndex()
			if !ok {
				break
			}
			sel.Path = append(sel.Path, part)
		}
		return sel, true
	}
	if !p.lit(`"`) {
		return Selector{}, false
	}
	var segs []string
	for {
		ss := p.pos
		if !p.lit("/") {
			break
		}
		cs := p.pos
		for !p.eof() {
			r, w := utf8.DecodeRune(p.in[p.pos:])
			if r == utf8.RuneError && w == 1 {
				break
			}
			if !isPtrRune(r) {
				break
			}
			p.adv(w)
		}
		if p.pos == cs {
			p.pos = ss
			break
		}
		segs = append(segs, string(p.in[cs:p.pos]))
	}
	if !p.lit(`"`) {
		p.pos = start
		return Selector{}, false
	}
	sel := Selector{Type: SelectorTypeJsonPointer}
	if len(segs) == 0 {
		sel.Path = []string{""}
	}
	for _, s := range segs {
		s = strings.Replace(strings.Replace(s, "~1", "/", -1), "~0", "~", -1)
		sel.Path = append(sel.Path, s)
	}
	return sel, true
}

func (p *refP) afterNumbers() bool {
	return p.eof() || isWS(p.in[p.pos]) || p.in[p.pos] == ')'
}

func (p *refP) numberLiteral() (string, bool) {
	start := p.pos
	p.lit("-")
	if p.eof() || !isDigit(p.in[p.pos]) {
		p.pos = start
		return "", false
	}
	if p.in[p.pos] == '0' {
		p.adv(1)
	} else {
		for !p.eof() && isDigit(p.in[p.pos]) {
			p.adv(1)
		}
	}
	fs := p.pos
	if p.lit(".") {
		ds := p.pos
		for !p.eof() && isDigit(p.in[p.pos]) {
			p.adv(1)
		}
		if p.pos == ds {
			p.pos = fs
		}
	}
	if p.afterNumbers() {
		return string(p.in[start:p.pos]), true
	}
	p.rejected = true // "Invalid number literal"
	p.pos = start
	return "", false
}

func (p *refP) value() (*MatchValue, bool) {
	start := p.pos
	if sel, ok := p.selector(); ok {
		if sel.Type == SelectorTypeJsonPointer {
			// a quoted string in value position denotes the string it spells
			s, err := strconv.Unquote(string(p.in[start:p.pos]))
			if err != nil {
				p.rejected = true
			}
			return &MatchValue{Raw: s}, true
		}
		return &MatchValue{Raw: strings.Join(sel.Path, ".")}, true
	}
	if n, ok := p.numberLiteral(); ok {
		return &MatchValue{Raw: n}, true
	}
	if s, ok := p.stringLiteral(); ok {
		return &MatchValue{Raw: s}, true
	}
	return nil, false
}

// seq matches the words with mandatory whitespace before, between and (if
// trailing) after them.
func (p *refP) wordOp(trailing bool, words ...string) bool {
	start := p.pos
	for _, w := range words {
		if !p.ws() || !p.lit(w) {
			p.pos = start
			return false
		}
	}
	if trailing && !p.ws() {
		p.pos = start
		return false
	}
	return true
}

func (p *refP) symOp(s string) bool {
	start := p.pos
	p.optWS()
	if !p.lit(s) {
		p.pos = start
		return false
	}
	p.optWS()
	return true
}

func (p *refP) match() (Expression, bool) {
	start := p.pos
	// selector operator value
	if sel, ok := p.selector(); ok {
		op := MatchOperator(-1)
		switch {
		case p.symOp("=="):
			op = MatchEqual
		case p.symOp("!="):
			op = MatchNotEqual
		case p.wordOp(true, "contains"):
			op = MatchIn
		case p.wordOp(true, "not", "contains"):
			op = MatchNotIn
		case p.wordOp(true, "matches"):
			op = MatchMatches
		case p.wordOp(true, "not", "matches"):
			op = MatchNotMatches
		}
		if op >= 0 {
			if v, ok := p.value(); ok {
				return &MatchExpression{Selector: sel, Operator: op, Value: v}, true
			}
		}
		p.pos = start
	}
	// selector is [not] empty
	if sel, ok := p.selector(); ok {
		if p.wordOp(false, "is", "empty") {
			return &MatchExpression{Selector: sel, Operator: MatchIsEmpty}, true
		}
		if p.wordOp(false, "is", "not", "empty") {
			return &MatchExpression{Selector: sel, Operator: MatchIsNotEmpty}, true
		}
		p.pos = start
	}
	// value [not] in selector
	if v, ok := p.value(); ok {
		op := MatchOperator(-1)
		switch {
		case p.wordOp(true, "in"):
			op = MatchIn
		case p.wordOp(true, "not", "in"):
			op = MatchNotIn
		}
		if op >= 0 {
			if sel, ok := p.selector(); ok {
				return &MatchExpression{Selector: sel, Operator: op, Value: v}, true
			}
			p.rejected = true // "Invalid selector"
		}
		p.pos = start
	}
	return nil, false
}

func (p *refP) paren() (Expression, bool) {
	start := p.pos
	if p.lit("(") {
		p.optWS()
		if e, ok := p.or(); ok {
			p.optWS()
			if p.lit(")") {
				return e, true
			}
			// falls through the match alternative (which cannot start with "(")
			// to the error production: "(" _? Or _? !")"
			p.pos = start
			if m, ok := p.match(); ok {
				return m, true
			}
			p.rejected = true // "Unmatched parentheses"
			p.pos = start
			return nil, false
		}
		p.pos = start
	}
	return p.match()
}

func (p *refP) not() (Expression, bool) {
	start := p.pos
	if p.lit("not") && p.ws() {
		if e, ok := p.not(); ok {
			if u, isU := e.(*UnaryExpression); isU && u.Operator == UnaryOpNot {
				return u.Operand, true
			}
			return &UnaryExpression{Operator: UnaryOpNot, Operand: e}, true
		}
	}
	p.pos = start
	return p.paren()
}

func (p *refP) and() (Expression, bool) {
	left, ok := p.not()
	if !ok {
		return nil, false
	}
	after := p.pos
	if p.ws() && p.lit("and") && p.ws() {
		if right, ok := p.and(); ok {
			return &BinaryExpression{Operator: BinaryOpAnd, Left: left, Right: right}, true
		}
	}
	p.pos = after
	return left, true
}

func (p *refP) collIds() (CollectionNameBinding, bool) {
	start := p.pos
	if id1, ok := p.ident(); ok {
		afterID := p.pos
		p.optWS()
		if p.lit(",") {
			p.optWS()
			if id2, ok := p.ident(); ok {
				return CollectionNameBinding{Mode: CollectionBindIndexAndValue, Index: id1, Value: id2}, true
			}
			if p.lit("_") {
				return CollectionNameBinding{Mode: CollectionBindIndex, Index: id1}, true
			}
		}
		p.pos = afterID
		return CollectionNameBinding{Mode: CollectionBindDefault, Default: id1}, true
	}
	if p.lit("_") {
		p.optWS()
		if p.lit(",") {
			p.optWS()
			if id2, ok := p.ident(); ok {
				return CollectionNameBinding{Mode: CollectionBindValue, Value: id2}, true
			}
		}
	}
	p.pos = start
	return CollectionNameBinding{}, false
}

func (p *refP) collection() (Expression, bool) {
	start := p.pos
	var op CollectionOperator
	switch {
	case p.lit("any") && p.ws():
		op = CollectionOpAny
	default:
		p.pos = start
		if p.lit("all") && p.ws() {
			op = CollectionOpAll
		} else {
			p.pos = start
			return nil, false
		}
	}
	sel, ok := p.selector()
	if ok && p.ws() && p.lit("as") && p.ws() {
		if b, ok := p.collIds(); ok {
			p.optWS()
			if p.lit("{") {
				p.optWS()
				if e, ok := p.or(); ok {
					p.optWS()
					if p.lit("}") {
						return &CollectionExpression{Op: op, Selector: sel, NameBinding: b, Inner: e}, true
					}
				}
			}
		}
	}
	p.pos = start
	return nil, false
}

func (p *refP) or() (Expression, bool) {
	start := p.pos
	if left, ok := p.and(); ok {
		after := p.pos
		if p.ws() && p.lit("or") && p.ws() {
			if right, ok := p.or(); ok {
				return &BinaryExpression{Operator: BinaryOpOr, Left: left, Right: right}, true
			}
		}
		p.pos = after
		return left, true
	}
	p.pos = start
	return p.collection()
}

// refParse returns the tree and whether the input is accepted.
func refParse(in []byte) (Expression, bool) {
	p := &refP{in: in}
	var res Expression
	matched := false
	// Input <- _? "(" _? Or _? ")" _? EOF / _? Or _? EOF
	p.optWS()
	if p.lit("(") {
		p.optWS()
		if e, ok := p.or(); ok {
			p.optWS()
			if p.lit(")") {
				p.optWS()
				if p.eof() {
					res, matched = e, true
				}
			}
		}
	}
	if !matched {
		p.pos = 0
		p.optWS()
		if e, ok := p.or(); ok {
			p.optWS()
			if p.eof() {
				res, matched = e, true
			}
		}
	}
	// "invalid encoding" is recorded for every ill-formed byte the parser stepped over
	for off := 0; off < len(in) && off <= p.far; {
		r, w := utf8.DecodeRune(in[off:])
		if r == utf8.RuneError && w == 1 {
			p.rejected = true
		}
		off += w
	}
	if !matched || p.rejected {
		return nil, false
	}
	return res, true
}

// astEqual: structural equality of two syntax trees.
func astEqual(a, b Expression) bool {
	switch x := a.(type) {
	case *UnaryExpression:
		y, ok := b.(*UnaryExpression)
		return ok && x.Operator == y.Operator && astEqual(x.Operand, y.Operand)
	case *BinaryExpression:
		y, ok := b.(*BinaryExpression)
		return ok && x.Operator == y.Operator && astEqual(x.Left, y.Left) && astEqual(x.Right, y.Right)
	case *MatchExpression:
		y, ok := b.(*MatchExpression)
		if !ok || x.Operator != y.Operator || !selEqual(x.Selector, y.Selector) {
			return false
		}
		if (x.Value == nil) != (y.Value == nil) {
			return false
		}
		return x.Value == nil || x.Value.Raw == y.Value.Raw
	case *CollectionExpression:
		y, ok := b.(*CollectionExpression)
		return ok && x.Op == y.Op && selEqual(x.Selector, y.Selector) && x.NameBinding == y.NameBinding && astEqual(x.Inner, y.Inner)
	}
	return false
}

func selEqual(a, b Selector) bool {
	if a.Type != b.Type || len(a.Path) != len(b.Path) {
		return false
	}
	for i := range a.Path {
		if a.Path[i] != b.Path[i] {
			return false
		}
	}
	return true
}
