package grammar

// C16 — print-then-parse round trip: precedence, grouping, layout and literal fidelity.
// A harness-side printer renders a tree with symbolic layout and style
// choices; the real parser must give the tree back.

import "strconv"

func symIdent() string {
	b := vStringN(1)
	vAssume(b[0] >= 'a' && b[0] <= 'z')
	return b + "Q"
}

// Layout: one slot per rendering is varied (chosen up front), the others take
// a default; so every slot is exercised with every whitespace form, one at a time.
var (
	slotNo, varySlot int
	wrapNo, varyWrap int
)

func layoutReset(slots, wraps int) {
	slotNo, wrapNo = 0, 0
	varySlot, varyWrap = -1, -1
	// vary either one whitespace slot or one redundant pair of parentheses
	c := vChoose(slots + wraps + 1)
	switch {
	case c < slots:
		varySlot = c
	case c < slots+wraps:
		varyWrap = c - slots
	}
}

func wsForm() string {
	if vTier() == 0 {
		return []string{"\t", "\n\r", "  "}[vChoose(3)]
	}
	return []string{" ", "\t", "\n", "\r", " \t ", "\n\n"}[vChoose(6)]
}

func optSpace() string {
	slotNo++
	if slotNo-1 == varySlot {
		return wsForm()
	}
	return ""
}

func reqSpace() string {
	slotNo++
	if slotNo-1 == varySlot {
		return wsForm()
	}
	return " "
}

// symLeaf builds a match expression with symbolic names / literal and its rendering.
func symLeaf() (Expression, string) {
	id := symIdent()
	sel := Selector{Type: SelectorTypeBexpr, Path: []string{id}}
	selText := id
	switch vChoose(4) {
	case 1:
		sel.Path = append(sel.Path, "k")
		selText = id + ".k"
	case 2:
		sel.Path = append(sel.Path, "k 1")
		selText = id + `["k 1"]`
	case 3:
		sel = Selector{Type: SelectorTypeJsonPointer, Path: []string{id, "k"}}
		selText = `"/` + id + `/k"`
	}
	op := MatchOperator(vChoose(8))
	if op == MatchIsEmpty {
		return &MatchExpression{Selector: sel, Operator: op}, selText + reqSpace() + "is" + reqSpace() + "empty"
	}
	if op == MatchIsNotEmpty {
		return &MatchExpression{Selector: sel, Operator: op}, selText + reqSpace() + "is" + reqSpace() + "not" + reqSpace() + "empty"
	}
	// literal
	var raw, lit string
	switch vChoose(5) {
	case 0: // double-quoted, one verbatim byte
		b := vStringN(1)
		vAssume(b[0] >= 0x20 && b[0] < 0x7f && b[0] != '"' && b[0] != '\\')
		raw, lit = "x"+b, `"x`+b+`"`
	case 1: // backtick
		b := vStringN(1)
		vAssume(b[0] != '`' && b[0] != '\r' && b[0] < 0x80)
		raw, lit = b+"y", "`"+b+"y`"
	case 2: // bare number
		raw = []string{"0", "7", "-1", "12", "0.5", "-3.25"}[vChoose(6)]
		lit = raw
	case 3: // bare word (read as a selector, denotes its dotted spelling)
		w := symIdent()
		raw, lit = w, w
	default: // quoted string with escapes and a leading slash
		raw, lit = "/u\tv\"", `"/u\tv\""`
		raw, lit = "/u\tv", `"/u\tv"`
	}
	v := &MatchValue{Raw: raw}
	e := &MatchExpression{Selector: sel, Operator: op, Value: v}
	switch op {
	case MatchEqual:
		return e, selText + optSpace() + "==" + optSpace() + lit
	case MatchNotEqual:
		return e, selText + optSpace() + "!=" + optSpace() + lit
	case MatchIn:
		if vBool() {
			return e, lit + reqSpace() + "in" + reqSpace() + selText
		}
		return e, selText + reqSpace() + "contains" + reqSpace() + lit
	case MatchNotIn:
		if vBool() {
			return e, lit + reqSpace() + "not" + reqSpace() + "in" + reqSpace() + selText
		}
		return e, selText + reqSpace() + "not" + reqSpace() + "contains" + reqSpace() + lit
	case MatchMatches:
		return e, selText + reqSpace() + "matches" + reqSpace() + lit
	default:
		return e, selText + reqSpace() + "not" + reqSpace() + "matches" + reqSpace() + lit
	}
}

// fixedLeaf: a concrete leaf (keeps the number of symbolic bytes per tree small).
func fixedLeaf(i int) (Expression, string) {
	names := []string{"p", "q", "r", "s"}
	n := names[i%4]
	return &MatchExpression{Selector: Selector{Type: SelectorTypeBexpr, Path: []string{n}}, Operator: MatchEqual, Value: &MatchValue{Raw: "1"}}, n + "==1"
}

const (
	ctxTop = iota
	ctxOrLeft
	ctxOrRight
	ctxAndLeft
	ctxAndRight
	ctxNot
)

func isQuant(e Expression) bool { _, ok := e.(*CollectionExpression); return ok }

// needParens: when the rendering of e must be parenthesised in context ctx.
func needParens(e Expression, ctx int) bool {
	switch x := e.(type) {
	case *BinaryExpression:
		switch ctx {
		case ctxNot, ctxAndLeft:
			return true
		case ctxAndRight:
			return x.Operator == BinaryOpOr
		case ctxOrLeft:
			return x.Operator == BinaryOpOr
		}
	case *CollectionExpression:
		return ctx == ctxNot || ctx == ctxAndLeft || ctx == ctxAndRight || ctx == ctxOrLeft
	}
	return false
}

func wrap(s string, must bool) string {
	wrapNo++
	if must || wrapNo-1 == varyWrap {
		return "(" + optSpace() + s + optSpace() + ")"
	}
	return s
}

// genTree enumerates a tree of the given depth with its rendering.
func genTree(depth int, leafNo *int, ctx int) (Expression, string) {
	if depth == 0 {
		*leafNo++
		if *leafNo == 1 {
			// leaf styles are H_C16_leaf's subject; here the leaf keeps a symbolic name only
			id := symIdent()
			return &MatchExpression{Selector: Selector{Type: SelectorTypeBexpr, Path: []string{id}}, Operator: MatchNotEqual, Value: &MatchValue{Raw: "7"}}, id + "!=7"
		}
		return fixedLeaf(*leafNo)
	}
	c := vChoose(5)
	if noQuantC16 && c == 3 {
		c = 4
	}
	switch c {
	case 0:
		e, s := genTree(depth-1, leafNo, ctxNot)
		return &UnaryExpression{Operator: UnaryOpNot, Operand: e}, "not" + reqSpace() + wrap(s, needParens(e, ctxNot))
	case 1:
		l, ls := genTree(depth-1, leafNo, ctxAndLeft)
		r, rs := genTree(depth-1, leafNo, ctxAndRight)
		return &BinaryExpression{Operator: BinaryOpAnd, Left: l, Right: r}, wrap(ls, needParens(l, ctxAndLeft)) + reqSpace() + "and" + reqSpace() + wrap(rs, needParens(r, ctxAndRight))
	case 2:
		l, ls := genTree(depth-1, leafNo, ctxOrLeft)
		r, rs := genTree(depth-1, leafNo, ctxOrRight)
		return &BinaryExpression{Operator: BinaryOpOr, Left: l, Right: r}, wrap(ls, needParens(l, ctxOrLeft)) + reqSpace() + "or" + reqSpace() + wrap(rs, needParens(r, ctxOrRight))
	case 3:
		in, is := genTree(depth-1, leafNo, ctxTop)
		op, kw := CollectionOpAny, "any"
		if vBool() {
			op, kw = CollectionOpAll, "all"
		}
		var b CollectionNameBinding
		var bs string
		nb := 4
		if depth > 1 || vTier() == 0 {
			nb = 1 // binding modes are H_C16_bindings' subject
		}
		switch vChoose(nb) {
		case 0:
			b, bs = CollectionNameBinding{Mode: CollectionBindDefault, Default: "x"}, "x"
		case 1:
			b, bs = CollectionNameBinding{Mode: CollectionBindIndexAndValue, Index: "i", Value: "v"}, "i"+optSpace()+","+optSpace()+"v"
		case 2:
			b, bs = CollectionNameBinding{Mode: CollectionBindIndex, Index: "i"}, "i"+optSpace()+","+optSpace()+"_"
		default:
			b, bs = CollectionNameBinding{Mode: CollectionBindValue, Value: "v"}, "_"+optSpace()+","+optSpace()+"v"
		}
		sel := Selector{Type: SelectorTypeBexpr, Path: []string{"coll", "f"}}
		return &CollectionExpression{Op: op, Selector: sel, NameBinding: b, Inner: in},
			kw + reqSpace() + "coll.f" + reqSpace() + "as" + reqSpace() + bs + optSpace() + "{" + optSpace() + is + reqSpace() + "}"
	default:
		return genTree(depth-1, leafNo, ctx)
	}
}

// foldNots applies the documented `not not e` == `e` folding.
func foldNots(e Expression) Expression {
	switch x := e.(type) {
	case *UnaryExpression:
		in := foldNots(x.Operand)
		if u, ok := in.(*UnaryExpression); ok && u.Operator == UnaryOpNot && x.Operator == UnaryOpNot {
			return u.Operand
		}
		return &UnaryExpression{Operator: x.Operator, Operand: in}
	case *BinaryExpression:
		return &BinaryExpression{Operator: x.Operator, Left: foldNots(x.Left), Right: foldNots(x.Right)}
	case *CollectionExpression:
		return &CollectionExpression{Op: x.Op, Selector: x.Selector, NameBinding: x.NameBinding, Inner: foldNots(x.Inner)}
	}
	return e
}

// noQuantC16: depth-3 trees are built from not/and/or only and rendered with
// the default layout (the product with quantifiers and layout variation is
// out of reach: ~10^6 parses).
var noQuantC16 bool

func H_C16_roundtrip() {
	depth := 1 + vChoose(2)
	n := 0
	noQuantC16 = false
	if vTier() > 0 && vBool() {
		depth = 3
		noQuantC16 = true
		layoutReset(0, 0)
	} else if vTier() == 0 {
		layoutReset(8, 2)
	} else {
		layoutReset(14, 4)
	}
	t, s := genTree(depth, &n, ctxTop)
	text := optSpace() + wrap(s, needParens(t, ctxTop) && false) + optSpace()
	got, err := Parse("", []byte(text))
	vAssert(err == nil, "a rendering of a tree is accepted")
	if err == nil {
		g, ok := got.(Expression)
		vAssert(ok && astEqual(g, foldNots(t)), "parsing a rendering gives the tree back (precedence, right grouping, parentheses, not-folding, literal text)")
	}
	vCover("reached")
}

// H_C16_leaf: the leaf alone, all styles.
func H_C16_leaf() {
	layoutReset(8, 0)
	t, s := symLeaf()
	if vTier() == 0 {
		// quick: a seed-selected half of the operators
		vAssume(int(t.(*MatchExpression).Operator)%2 == vSeed()%2)
	}
	got, err := Parse("", []byte(optSpace()+s+optSpace()))
	vAssert(err == nil, "a rendered match is accepted")
	if err == nil {
		g, ok := got.(Expression)
		vAssert(ok && astEqual(g, t), "a rendered match parses back to itself")
	}
	vCover("reached")
}

// H_C16_chain: chains group to the right; parentheses override.
func H_C16_chain() {
	ops := []string{"and", "or"}
	o1, o2 := vChoose(2), vChoose(2)
	a, as := fixedLeaf(0)
	b, bs := fixedLeaf(1)
	c, cs := fixedLeaf(2)
	bo := func(o int) BinaryOperator {
		if o == 0 {
			return BinaryOpAnd
		}
		return BinaryOpOr
	}
	text := as + " " + ops[o1] + " " + bs + " " + ops[o2] + " " + cs
	var want Expression
	if o1 == 1 || o2 == 0 || o1 == o2 {
		// a op1 (b op2 c): same operators group right; `or` is loosest so a or (b and c)
		want = &BinaryExpression{Operator: bo(o1), Left: a, Right: &BinaryExpression{Operator: bo(o2), Left: b, Right: c}}
		if o1 == 0 && o2 == 1 {
			want = nil
		}
	}
	if o1 == 0 && o2 == 1 {
		// a and b or c  ==  (a and b) or c
		want = &BinaryExpression{Operator: BinaryOpOr, Left: &BinaryExpression{Operator: BinaryOpAnd, Left: a, Right: b}, Right: c}
	}
	got, err := Parse("", []byte(text))
	vAssert(err == nil && astEqual(got.(Expression), want), text+": chains group to the right, and binds tighter than or")
	// parentheses override
	ptext := "(" + as + " " + ops[o1] + " " + bs + ") " + ops[o2] + " " + cs
	pwant := &BinaryExpression{Operator: bo(o2), Left: &BinaryExpression{Operator: bo(o1), Left: a, Right: b}, Right: c}
	pgot, perr := Parse("", []byte(ptext))
	vAssert(perr == nil && astEqual(pgot.(Expression), pwant), ptext+": parentheses override")
	ngot, nerr := Parse("", []byte("not "+as+" and "+bs))
	nwant := &BinaryExpression{Operator: BinaryOpAnd, Left: &UnaryExpression{Operator: UnaryOpNot, Operand: a}, Right: b}
	vAssert(nerr == nil && astEqual(ngot.(Expression), nwant), "not binds tighter than and")
	vCover("reached")
}

var _ = strconv.Quote

// H_C16_bindings: every binding mode, with layout variation around the binding list.
func H_C16_bindings() {
	layoutReset(10, 0)
	n := 1
	t, s := genTree(1, &n, ctxTop)
	vAssume(isQuant(t))
	_ = s
	// re-render with all four modes
	q := t.(*CollectionExpression)
	var bs string
	switch vChoose(4) {
	case 0:
		q.NameBinding, bs = CollectionNameBinding{Mode: CollectionBindDefault, Default: "x"}, "x"
	case 1:
		q.NameBinding, bs = CollectionNameBinding{Mode: CollectionBindIndexAndValue, Index: "i", Value: "v"}, "i"+optSpace()+","+optSpace()+"v"
	case 2:
		q.NameBinding, bs = CollectionNameBinding{Mode: CollectionBindIndex, Index: "i"}, "i"+optSpace()+","+optSpace()+"_"
	default:
		q.NameBinding, bs = CollectionNameBinding{Mode: CollectionBindValue, Value: "v"}, "_"+optSpace()+","+optSpace()+"v"
	}
	kw := "any"
	if q.Op == CollectionOpAll {
		kw = "all"
	}
	text := kw + reqSpace() + "coll.f" + reqSpace() + "as" + reqSpace() + bs + optSpace() + "{" + optSpace() + "q==1" + reqSpace() + "}"
	q.Inner = &MatchExpression{Selector: Selector{Type: SelectorTypeBexpr, Path: []string{"q"}}, Operator: MatchEqual, Value: &MatchValue{Raw: "1"}}
	got, err := Parse("", []byte(text))
	vAssert(err == nil && astEqual(got.(Expression), q), "a rendered quantifier parses back to itself (binding mode and names)")
	vCover("reached")
}

// H_C16_redundant_parens: many redundant pairs around one node still give the node back.
func H_C16_redundant_parens() {
	n := 1 + vChoose(6)
	if vTier() > 0 {
		n = 1 + vChoose(7)
	}
	a, as := fixedLeaf(0)
	text := as
	for i := 0; i < n; i++ {
		text = "(" + text + ")"
	}
	got, err := Parse("", []byte(text))
	vAssert(err == nil && astEqual(got.(Expression), a), text+": redundant parentheses do not change the tree")
	vCover("reached")
}

// H_C16_keywords: an identifier that merely starts with a keyword is an
// identifier wherever an identifier may stand: the printer never has to
// avoid such names. (A keyword directly followed by '(' or '"' needs no
// blank either way; that is H_C16_roundtrip's layout.)
var keywordsC16 = []string{"not", "and", "or", "in", "is", "any", "all", "as", "matches", "contains", "empty"}

func H_C16_keywords() {
	kw := keywordsC16[vChoose(len(keywordsC16))]
	b := vStringN(1)
	vAssume(b[0] >= 'a' && b[0] <= 'z' || b[0] >= 'A' && b[0] <= 'Z' || b[0] >= '0' && b[0] <= '9' || b[0] == '_')
	id := kw + b
	sel := func(n string) Selector { return Selector{Type: SelectorTypeBexpr, Path: []string{n}} }
	leaf := func(n string) *MatchExpression {
		return &MatchExpression{Selector: sel(n), Operator: MatchEqual, Value: &MatchValue{Raw: "1"}}
	}
	var text string
	var want Expression
	switch vChoose(8) {
	case 0:
		text, want = id+" == 1", leaf(id)
	case 1:
		text, want = "not "+id+" == 1", &UnaryExpression{Operator: UnaryOpNot, Operand: leaf(id)}
	case 2:
		text, want = "p == 1 and "+id+" == 1", &BinaryExpression{Left: leaf("p"), Operator: BinaryOpAnd, Right: leaf(id)}
	case 3:
		text, want = id+" == 1 or p == 1", &BinaryExpression{Left: leaf(id), Operator: BinaryOpOr, Right: leaf("p")}
	case 4:
		text, want = "p == "+id, &MatchExpression{Selector: sel("p"), Operator: MatchEqual, Value: &MatchValue{Raw: id}}
	case 5:
		text = "any " + id + " as " + id + " { " + id + " == 1 }"
		want = &CollectionExpression{Op: CollectionOpAny, Selector: sel(id), Inner: leaf(id), NameBinding: CollectionNameBinding{Mode: CollectionBindDefault, Default: id}}
	case 6:
		text, want = id+" in "+id, &MatchExpression{Selector: sel(id), Operator: MatchIn, Value: &MatchValue{Raw: id}}
	default:
		text, want = "("+id+" is empty)", &MatchExpression{Selector: sel(id), Operator: MatchIsEmpty}
	}
	got, err := Parse("", []byte(text))
	vAssert(err == nil, "an identifier that starts with a keyword is accepted: "+kw+"_")
	if err == nil {
		g, ok := got.(Expression)
		vAssert(ok && astEqual(g, want), "an identifier that starts with a keyword parses as an identifier: "+kw+"_")
	}
	vCover("reached")
}
