package grammar

// C15 — the parser accepts exactly the bexpr language and builds the prescribed AST.
// Differential: the real grammar.Parse against refParse on the same bytes.

var corpusC15 = []string{
	`a == 1`, `a != "x"`, `"x" in a`, `a not in b`, `a contains 1`, `a not contains x`, `a is empty`, `a is not empty`, `a matches "^x"`, `a not matches "x"`,
	`a == 1 and b == 2`, `a == 1 or b == 2`, `not a == 1`, `not not a == 1`, `not not not a == 1`, `(a == 1)`, `( a == 1 )`, `a.b.c == 1`, `a["b"].c == 1`, "a[`b`] == 1", `"/a/b" == 1`,
	`any a as x { x == 1 }`, `all a as i, v { v != 1 }`, `any a as _, v { v == 1 }`, `all a as i, _ { i == 0 }`, `any "/a" as x { x.b == 1 }`, `all a as i,v{v==1}`,
	`a == -1.5`, `a == 0`, `a == "\t\x41é"`, "a == `raw`", `a.0 == 1`, `a/b == 1`, `a == b.c`, `1 in a`, `-1.5 in a`, `a == "/x/y"`, `a == ""`, `"" == 1`, `"/" == 1`,
	`a == 1 and (b == 2 or not c in d)`, `a == "é"`, ` a==1 `, "a\t==\n1", `a == 1 or b == 2 or c == 3`, `a == 1 and b == 2 and c == 3`, `a == 1 or b == 2 and c == 3`,
	`a == 1 or any b as x { x == 1 }`, `(any b as x { x == 1 }) and a == 1`, `not == 1`, `in in in`, `any == 1`, `all.x is empty`, `a == "/a~1b/~0"`, `"/a~1b/~0c" == 1`, `a == "/é/١"`, `"/é" == 1`,
	`((a == 1))`, `(a == 1) and (b == 2)`, `a == 1 and not (b == 2)`, `a == -0`, `a == 0.50`, `any contains as x { x == 1 }`, `all matches as v { v == 1 }`, `any in as i { i == 1 }`, `a == 1 or any in as x { x == 1 }`, `(all contains as x { x == 1 })`, "a == \"x\uFFFDy\"", "a == 1\uFFFD", "a == `\uFFFD`", "\uFFFD == 1", "a[\"\uFFFD\"] == 1", "a == 1 \uFFFD and and (", "a\uFFFD == 1", `notes == 1`, `not notes == 1`, `android == 1 and orb == 2`, `inx in iny`, `anyx == 1 or allx is empty`, `a == foo["bar"]`, `a == foo["a.b"]`, `a == foo["a b"].c`, `foo[""] in x`, "a == foo[`x-y`]", `a[ "b" ] == 1`, `a == x/y`,
	`"/a/~01" == 1`, `"/~10" == 1`, `a == "/~01"`, `a == 1 or a == 1`, `a == 1 and a == 1`, `a matches "x" or a matches "y"`, `m["b.c"] == 1 and m.b.c == 1`, `a == 1 or (a == 1 and b == 2)`,
	`foo["bar"] in baz`, `foo.bar in baz`, `"/x/y" in foo`, `(((((a == 1)))))`, `not ((((not (a in b)))))`, `(((((((a == 1)))))))`, "a == `x\ry`", "a == \"x\ny\"", "a[`k\r`] == 1", "a == \"x\ry\"",
	// rejected
	`(a == 1`, `a == 1x`, `a[1] == 2`, `a["b" == 1`, `a == "x`, "a == `x", `1 in `, `x in 5`, `a == "\q"`, `a ==`, `== 1`, `a = 1`, `any a as _ { x == 1 }`, `a == 01`, `a == 1.`, "a == \"\xff\"", `a is`, `not`, `a == 1 or`, `{`,
	`any a as x { x == 1} `, `any a as x { x == 1}`, `a == 1and b == 2`, `(a==1)and(b==2)`, `not(a==1)`, `a == 1e5`, `anyxs as x { x == 1 }`, `any a as x { any x as y { y == 1 } } or a == 1`, `a == 1 and any b as x { x == 1 }`, `not any b as x { x == 1 }`,
	`a.b. == 1`, `a..b == 1`, `a[] == 1`, `"/a//b" == 1`, `"/a/" == 1`, `a == "a"b"`, `a is  empty`, `a is not  empty`, `a  ==  1`, `a is empty and b is not empty`,
}

func checkAgainstRef(in []byte, what string) bool {
	got, err := Parse("", in)
	want, ok := refParse(in)
	vAssert((err == nil) == ok, what+": accepted by the parser iff derivable from the grammar")
	if err == nil && ok {
		g, isExpr := got.(Expression)
		vAssert(isExpr && astEqual(g, want), what+": the syntax tree is the one the grammar prescribes")
	}
	return ok
}

func H_C15_corpus() {
	s := corpusC15[vChoose(len(corpusC15))]
	if vTier() == 0 && len(s) > 6 && s[:7] == "(((((((" {
		return // thorough tier only
	}
	if checkAgainstRef([]byte(s), s) {
		vCover("accepted")
	} else {
		vCover("rejected")
	}
}

func H_C15_symbolic() {
	n := 3
	if vTier() > 0 {
		n = 4
	}
	checkAgainstRef(vBytes(n), "symbolic input")
	vCover("reached")
}

// H_C15_windows: one unconstrained byte replacing / inserted at every position of corpus strings.
func H_C15_windows() {
	ci := vChoose(len(corpusC15))
	if vTier() == 0 {
		vAssume(ci%16 == vSeed()%16)
	}
	s := corpusC15[ci]
	if len(s) > 14 && s[:3] == "(((" || len(s) > 14 && s[:5] == "not (" {
		return // deep nesting: covered concretely
	}
	pos := vChoose(len(s) + 1)
	var in string
	if vBool() && pos < len(s) {
		in = s[:pos] + vStringN(1) + s[pos+1:]
	} else {
		in = s[:pos] + vStringN(1) + s[pos:]
	}
	checkAgainstRef([]byte(in), "window over "+s)
	vCover("reached")
}
