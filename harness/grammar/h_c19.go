package grammar

// C19 — ExpressionDump and Selector.String render the tree faithfully.
// Differential: the real dump against a reference renderer.

import (
	"strconv"
	"strings"
)

func refSel(s Selector) string {
	if len(s.Path) == 0 {
		return ""
	}
	sep := ""
	switch s.Type {
	case SelectorTypeBexpr:
		sep = "."
	case SelectorTypeJsonPointer:
		sep = "/"
	default:
		return ""
	}
	out := s.Path[0]
	for _, p := range s.Path[1:] {
		out += sep + p
	}
	return out
}

var refOpNames = []string{"Equal", "Not Equal", "In", "Not In", "Is Empty", "Is Not Empty", "Matches", "Not Matches"}

func refIndent(indent string, level int) string {
	out := ""
	for i := 0; i < level; i++ {
		out += indent
	}
	return out
}

// refDump: one block per node in pre-order, one indent per tree level.
func refDump(e Expression, indent string, level int) string {
	in0, in1 := refIndent(indent, level), refIndent(indent, level+1)
	switch x := e.(type) {
	case *UnaryExpression:
		return in0 + "Not {\n" + refDump(x.Operand, indent, level+1) + in0 + "}\n"
	case *BinaryExpression:
		name := "And"
		if x.Operator == BinaryOpOr {
			name = "Or"
		}
		return in0 + name + " {\n" + refDump(x.Left, indent, level+1) + refDump(x.Right, indent, level+1) + in0 + "}\n"
	case *MatchExpression:
		name := "UNKNOWN"
		if x.Operator >= 0 && int(x.Operator) < len(refOpNames) {
			name = refOpNames[x.Operator]
		}
		s := in0 + name + " {\n" + in1 + "Selector: " + refSel(x.Selector) + "\n"
		if x.Operator >= MatchEqual && x.Operator <= MatchNotIn {
			s += in1 + "Value: " + strconv.Quote(x.Value.Raw) + "\n"
		}
		return s + in0 + "}\n"
	case *CollectionExpression:
		b := ""
		switch x.NameBinding.Mode {
		case CollectionBindDefault:
			b = "Default (" + x.NameBinding.Default + ")"
		case CollectionBindIndex:
			b = "Index (" + x.NameBinding.Index + ")"
		case CollectionBindValue:
			b = "Value (" + x.NameBinding.Value + ")"
		case CollectionBindIndexAndValue:
			b = "Index & Value (" + x.NameBinding.Index + ", " + x.NameBinding.Value + ")"
		}
		op := "ALL"
		if x.Op == CollectionOpAny {
			op = "ANY"
		}
		return in0 + op + " " + b + " on " + refSel(x.Selector) + " {\n" + refDump(x.Inner, indent, level+1) + in0 + "}\n"
	}
	return "?"
}

var corpusC19 = []string{
	`a == 1`, `a != "x y"`, `"x" in a.b`, `z not in "/p/q"`, `a is empty`, `"/a/b" is not empty`, `a matches "^x"`, `a not matches "x\"y"`,
	`a == 1 and b == 2 or not c in d`, `not (a == 1 or b.c["d e"] != "\t")`, `any a as x { x == 1 }`, `all a.b as i, v { v != 1 and i == 0 }`, `any "/a" as _, v { all v as k, _ { k == "" } }`,
	`all a as i, _ { i == 0 }`, `a == "\x00\x7f\xffé١"`, `any usage["cpu%d"] as v { v == "%s" }`, `"/labels/ti~0lde/a~1b" is empty`, `all "/a~1b" as k, _ { k != "%" }`, `a["x.y"].z == "/q"`, `a == ""`, `"" == 1`,
}

// H_C19_corpus: parser-produced trees, symbolic indent and start level.
func H_C19_corpus() {
	src := corpusC19[vChoose(len(corpusC19))]
	t, err := Parse("", []byte(src))
	vAssume(err == nil)
	e := t.(Expression)
	indent := vString(2)
	if vChoose(4) == 0 {
		indent = []string{"%", "%d ", "%%", "%!"}[vChoose(4)]
	}
	level := vChoose(4)
	var sb strings.Builder
	e.ExpressionDump(&sb, indent, level)
	got := sb.String()
	vAssert(got == refDump(e, indent, level), src+": the dump is the documented indented rendering")
	var sb2 strings.Builder
	e.ExpressionDump(&sb2, indent, level)
	vAssert(sb2.String() == got, src+": the same tree always renders identically")
	vCover("reached")
}

// H_C19_symbolic: symbolic selector parts, literal bytes and binding names.
func H_C19_symbolic() {
	n := 1
	if vTier() > 0 {
		n = 2
	}
	part := vString(n)
	raw := vString(n)
	for i := 0; i < len(raw); i++ {
		vAssume(raw[i] < 0x80)
	}
	op := MatchOperator(vChoose(9)) // 8 = out of range
	st := SelectorType(vChoose(3))
	m := &MatchExpression{Selector: Selector{Type: st, Path: []string{"a", part}}, Operator: op, Value: &MatchValue{Raw: raw}}
	if op == MatchIsEmpty || op == MatchIsNotEmpty {
		m.Value = nil
	}
	var e Expression = m
	switch vChoose(4) {
	case 1:
		e = &UnaryExpression{Operator: UnaryOpNot, Operand: m}
	case 2:
		e = &BinaryExpression{Operator: BinaryOpOr, Left: m, Right: &MatchExpression{Selector: Selector{Type: SelectorTypeBexpr, Path: []string{"z"}}, Operator: MatchIsEmpty}}
	case 3:
		e = &CollectionExpression{Op: CollectionOpAll, Selector: Selector{Type: SelectorTypeJsonPointer, Path: []string{"c", part}}, NameBinding: CollectionNameBinding{Mode: CollectionBindIndexAndValue, Index: vString(1), Value: "v"}, Inner: m}
	}
	indent := []string{"", " ", "\t", "  "}[vChoose(4)]
	level := vChoose(3)
	var sb strings.Builder
	e.ExpressionDump(&sb, indent, level)
	vAssert(sb.String() == refDump(e, indent, level), "symbolic tree: the dump is the documented rendering")
	vAssert(m.Selector.String() == refSel(m.Selector), "Selector.String renders the selector in its own spelling")
	vCover("reached")
}

// H_C19_sequence: dumps with different indent strings in one process do not interfere.
func H_C19_sequence() {
	t, err := Parse("", []byte(`a == 1 and (b != "x" or not c in d)`))
	vAssume(err == nil)
	e := t.(Expression)
	i1 := vStringN(1)
	i2 := vStringN(1)
	var s1, s2, s3 strings.Builder
	e.ExpressionDump(&s1, i1, 1)
	e.ExpressionDump(&s2, i2, 1)
	e.ExpressionDump(&s3, i1, 2)
	vAssert(s1.String() == refDump(e, i1, 1), "first dump")
	vAssert(s2.String() == refDump(e, i2, 1), "second dump with another indent of the same length")
	vAssert(s3.String() == refDump(e, i1, 2), "third dump at another level")
	vCover("reached")
}
