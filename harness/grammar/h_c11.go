package grammar

// C11 — WithMaxExpressions is an exact, monotone budget on parser work.
// The budget is symbolic: every uint64 value (case-split into the comb of
// thresholds by the parser's own comparison).

import "strings"

var longInvalidC11 = "a == 1 " + strings.Repeat("x", 700)

var corpusC11 = []string{
	longInvalidC11,
	`a==1`, `a == 1 or b == 2`, `not a in b`, `(a==1)`, `a ==`, `a == 1x`, `(1 in foo[1]`, `a["b" == 1`, `any a as x { x == 1 }`, `a == "x`, `((a==1))`, ``, `a matches "x" and b is empty`,
}

func sameErr(a, b error) bool {
	if a == nil || b == nil {
		return a == nil && b == nil
	}
	return a.Error() == b.Error()
}

func dumpOf(v any) string {
	e, ok := v.(Expression)
	if !ok {
		if v == nil {
			return "<nil>"
		}
		return "<not an expression>"
	}
	var sb strings.Builder
	e.ExpressionDump(&sb, " ", 0)
	return sb.String()
}

func isBudgetErr(err error) bool {
	return err != nil && strings.Contains(err.Error(), "max number of expresssions parsed")
}

// H_C11_budget: all budgets near 0, near the threshold N and above it.
func H_C11_budget() {
	ci := vChoose(len(corpusC11))
	in := []byte(corpusC11[ci])
	p0 := newParser("", in)
	r0, e0 := p0.parse(g)
	N := p0.ExprCnt
	n := vUint64()
	w := uint64(10)
	if vTier() > 0 {
		w = 96
	}
	// the comb of all N thresholds is quadratic; explore both ends and beyond
	vAssume(n <= w || (n+w >= N && n <= N+w) || n >= 1<<62)
	p1 := newParser("", in, MaxExpressions(n))
	r1, e1 := p1.parse(g)
	s1 := p1.ExprCnt
	what := corpusC11[ci]
	vAssert(n == 0 || s1 == 0 || s1-1 <= n, what+": a limited parse never executes more than n+1 steps")
	if n == 0 || n >= N {
		vAssert(sameErr(e0, e1) && dumpOf(r0) == dumpOf(r1), what+": a budget of 0 or >= N gives exactly the unlimited result")
		vCover("at-or-above-threshold")
	} else {
		vAssert(isBudgetErr(e1) && r1 == nil, what+": a budget below N fails with the max-expressions error")
		vCover("below-threshold")
	}
	// the public entry point honours the same option
	r2, e2 := Parse("", in, MaxExpressions(n))
	vAssert(sameErr(e1, e2) && dumpOf(r1) == dumpOf(r2), what+": Parse with MaxExpressions is the same parse")
}

// H_C11_full: every budget from 0 to N+2 for short inputs, among them inputs
// that record an error in mid-parse (invalid UTF-8, a malformed number, an
// index on the left) — the budget error must not be lost behind it.
var fullC11 = []string{"a==1", "a == \"\xff\"", "a == 1x", "a[1] == 2", "(a==1)", "a in \"/x\"", "not a", "a == \"\\q\"", "a == \"\xff\xfe\xff\xfe\xff\xfe\xff\xfe\xff\xfe\xff\xfe\""}

func H_C11_full() {
	// quick: one seed-selected input and the one that collects a dozen errors
	ci := []int{vSeed() % (len(fullC11) - 1), len(fullC11) - 1}[vChoose(2)]
	if vTier() > 0 {
		ci = vChoose(len(fullC11))
	}
	in := []byte(fullC11[ci])
	p0 := newParser("", in)
	r0, e0 := p0.parse(g)
	N := p0.ExprCnt
	n := vUint64()
	vAssume(n <= N+2)
	p1 := newParser("", in, MaxExpressions(n))
	r1, e1 := p1.parse(g)
	s1 := p1.ExprCnt
	what := fullC11[ci]
	vAssert(n == 0 || s1 == 0 || s1-1 <= n, what+": a limited parse never executes more than n+1 steps")
	if n == 0 || n >= N {
		vAssert(sameErr(e0, e1) && dumpOf(r0) == dumpOf(r1), what+": a budget of 0 or >= N gives exactly the unlimited result")
		vCover("at-or-above-threshold")
	} else {
		vAssert(isBudgetErr(e1) && r1 == nil, what+": every budget below N fails with the max-expressions error")
		vCover("below-threshold")
	}
}

// H_C11_sequence: N is a function of the input alone — a parse that ran out
// of budget (at any point, for instance inside a lookahead) leaves nothing
// behind that changes what a later parse returns.
func H_C11_sequence() {
	firsts := []string{"x==\"y\"", "a == 1x", "not a in b", "foo == \"bar\""}
	seconds := []string{"foo == ", "a == 1", "(a == 1", "a == \"\\q\""}
	fi, si := 0, (vSeed()+3)%4 // quick: the shortest first input (N = 588) and one seed-selected second
	if vTier() > 0 {
		fi, si = vChoose(4), vChoose(4)
	}
	first, second := firsts[fi], seconds[si]
	r0, e0 := Parse("", []byte(second))
	p := newParser("", []byte(first))
	p.parse(g)
	N := p.ExprCnt
	n := vUint64()
	vAssume(n >= 1 && n < N)
	_, e1 := Parse("", []byte(first), MaxExpressions(n))
	vAssert(isBudgetErr(e1), first+": a budget below N fails with the max-expressions error")
	r2, e2 := Parse("", []byte(second))
	vAssert(sameErr(e0, e2) && dumpOf(r0) == dumpOf(r2), second+": a parse after an exhausted one returns what it returned before")
	r3, e3 := Parse("", []byte(second), MaxExpressions(1<<40))
	vAssert(sameErr(e0, e3) && dumpOf(r0) == dumpOf(r3), second+": and so does a generously limited one")
	vCover("reached")
}

// H_C11_nesting: adversarial nesting is cut off within the budget.
func H_C11_nesting() {
	depth := 6 + vChoose(3)
	in := []byte(strings.Repeat("(", depth) + "a==1" + strings.Repeat(")", depth))
	n := vUint64()
	vAssume(n >= 1 && n <= 40)
	p := newParser("", in, MaxExpressions(n*50))
	r, e := p.parse(g)
	vAssert(isBudgetErr(e) && r == nil, "deep nesting under a small budget ends in the budget error")
	vAssert(p.ExprCnt <= n*50+1, "deep nesting: never more than n+1 steps")
	vCover("reached")
}
