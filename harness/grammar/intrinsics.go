package grammar

// Harness intrinsics (see harness/bexpr/intrinsics.go).

func vBool() bool
func vInt() int
func vInt8() int8
func vInt32() int32
func vInt64() int64
func vUint8() uint8
func vUint64() uint64
func vByte() byte
func vString(max int) string
func vStringN(n int) string
func vBytes(max int) []byte
func vBytesN(n int) []byte
func vChoose(n int) int
func vAssume(ok bool)
func vAssert(ok bool, label string)
func vCover(label string)
func vTier() int
func vSeed() int
func vDebug(args ...interface{})
func vFail(label string)
func vNote(s string)
